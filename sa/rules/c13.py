"""C13 -- the optional-tags filter removes only tags HTML allows to be omitted.

R13.1 NAME SET       exact set of tag names for which is_optional_start / is_optional_end can
                     answer "omit", by branch partition over tag x neighbour type x neighbour name.
R13.2 ONLY REMOVES   every yield in Filter.__iter__ yields the loop's own token, unchanged, in
                     source order (the slider is a two-register delay line).
R13.3 WHAT           a token is dropped only if it is (StartTag, no attributes, optional start) or
                     (EndTag, optional end).
R13.4 AGREEMENT      (see c13_parser.py part, armed once the dispatcher model is available)
"""
from __future__ import annotations

import ast
import sys

from ..repo import AnalysisError, norm, walk_no_nested
from ..partition import MiniInterp, Opaque, domains_by_scrutinee, FRESH

LEVEL = "other"
TECHNIQUE = ("branch partition (decision table) of the omission predicates over a complete finite abstraction of tag/neighbour names and token types; evaluation of the filter generator's loop body over token type x attributes x predicate outcomes x namespace with neighbour identity; reader/writer agreement with the parser's dispatch tables")
CLAIM = ('The complete decision table of is_optional_start/is_optional_end is computed for every tag name '
         '(every constant mentioned, every substring of a string used as an `in` container, and a fresh name '
         'standing for all others) against every neighbour; the set of names that can ever be omitted must lie '
         'inside the list of the property, the generator may drop only attribute-less start tags / end tags '
         "that the predicates approve, and yields the source's own tokens in order. For the parse-equivalence "
         'clause, each omission the table allows is checked against the parser handler that must re-imply the '
         'omitted tag. Every (tag, next token) cell in which a tag is omitted is a position in which the HTML '
         'syntax allows the omission.'
         " Tokens in the SVG / MathML namespaces are never dropped, and the rules are asked about the stream's own neighbour tokens (helper methods of the filter are inlined).")
NOT_DECIDED = "full parse equivalence of filtered and unfiltered streams on all conforming documents."
MODULES = ["filters/optionaltags.py", "html5parser.py", "treebuilders/base.py", "constants.py"]

OPT_START = {"html", "head", "body", "colgroup", "tbody"}
OPT_END = {"html", "head", "body", "li", "dt", "dd", "p", "rt", "rp", "optgroup", "option", "colgroup",
           "thead", "tbody", "tfoot", "tr", "td", "th"}
TOKEN_TYPES = ["Doctype", "Characters", "SpaceCharacters", "StartTag", "EndTag", "EmptyTag", "Comment",
               "Entity", "SerializeError", FRESH]


def _data_param(ctx, func):
    """name of a parameter of the omission predicate that Filter.__iter__ binds to the current token's attributes, if any"""
    it = ctx.repo.func("filters/optionaltags.py", "Filter.__iter__")
    for c in ast.walk(it.node):
        if isinstance(c, ast.Call) and isinstance(c.func, ast.Attribute) and c.func.attr == func.name:
            params = func.params()[1:]
            for i, a in enumerate(c.args):
                if i < len(params) and norm(a).endswith("['data']"):
                    return params[i]
            for k in c.keywords:
                if norm(k.value).endswith("['data']"):
                    return k.arg
    return None


def decision_table(ctx, func, with_previous, extra_next=(), attributes=None):
    """-> {(tagname, next_type, next_name, prev): value} for all abstract inputs.  `attributes`: value bound to the parameter
    that receives the token's attributes (if the predicate has one)."""
    ce = ctx.ce
    data_param = _data_param(ctx, func)
    doms = domains_by_scrutinee([func.node], const_of=lambda n: ce.try_eval(n, func.module) if isinstance(n, ast.Name) else None)
    known = {"tagname", "next['name']", "previous['name']", "type", "previous['type']", "next['type']"}
    if set(doms) - known:
        raise AnalysisError("%s compares scrutinees outside the modelled set: %s" % (func.fq, sorted(set(doms) - known)))
    names = sorted(doms.get("tagname", {FRESH}))
    next_names = sorted(set(doms.get("next['name']", {FRESH})) | set(extra_next))
    prev_names = sorted(doms.get("previous['name']", {FRESH}))
    interp = MiniInterp(ce, func.module)
    table = {}
    params = func.params()
    nexts = [None]
    for ty in TOKEN_TYPES:
        if ty in ("StartTag", "EndTag", "EmptyTag"):
            for nm in next_names:
                nexts.append({"type": ty, "name": nm, "data": {}})
        else:
            nexts.append({"type": ty, "data": ""})
    prevs = [None]
    if with_previous:
        for ty in ("StartTag", "EndTag", "Characters"):
            for nm in prev_names:
                if ty == "Characters":
                    prevs.append({"type": ty, "data": ""})
                    break
                prevs.append({"type": ty, "name": nm, "data": {}})
    for tag in names:
        for nx in nexts:
            for pv in prevs:
                env = {"tagname": tag, "next": nx, "self": Opaque("self")}
                if with_previous:
                    env["previous"] = pv
                if data_param:
                    env[data_param] = attributes if attributes is not None else {}
                if set(params[1:]) - set(env):
                    raise AnalysisError("%s: unexpected parameters %s" % (func.fq, params))
                out = interp.run(func.node.body, env)
                if out.effects:
                    raise AnalysisError("%s has effects: %s" % (func.fq, out.effects[:2]))
                val = out.value if out.returned else None
                if isinstance(val, Opaque):
                    raise AnalysisError("%s returns an uninterpreted value %s" % (func.fq, val))
                table[(tag, nx and nx["type"], nx and nx.get("name"),
                       (pv["type"], pv.get("name")) if pv else None)] = val
    return names, table


def tables(ctx):
    def build():
        fs = ctx.repo.func("filters/optionaltags.py", "Filter.is_optional_start")
        fe = ctx.repo.func("filters/optionaltags.py", "Filter.is_optional_end")
        from .c03 import model
        extra = model(ctx).table_names       # the parser distinguishes these names: refine the abstraction by them
        ns, ts = decision_table(ctx, fs, True, extra)
        ne, te = decision_table(ctx, fe, False, extra)
        return fs, fe, ns, ts, ne, te
    return ctx.shared("c13.tables", build)


def start_table_with_attributes(ctx):
    """the start-tag decision table for a tag that carries attributes (None if the predicate is not told about them)"""
    def build():
        fs = ctx.repo.func("filters/optionaltags.py", "Filter.is_optional_start")
        if _data_param(ctx, fs) is None:
            return None
        from .c03 import model
        return decision_table(ctx, fs, True, model(ctx).table_names, attributes={(None, "a"): "b"})[1]
    return ctx.shared("c13.tables_attr", build)


def run(ctx):
    r = ctx.r
    repo = ctx.repo
    r.explanation = (
        "Decision tables of Filter.is_optional_start / is_optional_end are computed by branch partition over a "
        "complete finite abstraction (names: all constants mentioned + all substrings of `in`-container strings + a "
        "fresh name; neighbour: None or each token type x each name; previous likewise). Filter.__iter__ and "
        "slider() are analysed structurally (effects per token type; delay-line idiom).")
    r.not_decided = NOT_DECIDED
    r.rule("R13.1", "names for which a start/end tag can be omitted lie inside the HTML list of omissible tags", floor=24)
    r.rule("R13.2", "the filter yields only the source's own tokens, unmodified, each once and in order", floor=4)
    r.rule("R13.3", "a token is dropped only if (StartTag, no attributes, optional start) or (EndTag, optional end)", floor=20)

    fs, fe, names_s, tab_s, names_e, tab_e = tables(ctx)

    # ---- R13.1
    for label, func, names, tab, allowed in (("start", fs, names_s, tab_s, OPT_START), ("end", fe, names_e, tab_e, OPT_END)):
        omit = {}
        for (tag, nty, nname, pv), v in tab.items():
            if v:
                omit.setdefault(tag, (nty, nname, pv))
        for tag in names:
            key = "%s:%s" % (label, "<any other name>" if tag == FRESH else repr(tag))
            if tag in omit and tag not in allowed:
                nty, nname, pv = omit[tag]
                r.bad("R13.1", key, func.where,
                      "the %s tag of an element named %s can be omitted (e.g. next token %s %s) but HTML does not allow "
                      "omitting it" % (label, "<anything>" if tag == FRESH else repr(tag), nty, nname or ""),
                      {"tag": tag, "witness_next": [nty, nname], "witness_previous": pv})
            else:
                r.ok("R13.1", key, func.where, detail={"tag": tag, "omissible": tag in omit})
        r.extra["omissible_%s_names" % label] = sorted(omit)
        r.extra["%s_table_cells" % label] = len(tab)

    # ---- R13.2 / R13.3  Filter.__iter__
    it = repo.func("filters/optionaltags.py", "Filter.__iter__")
    fors = [n for n in it.node.body if isinstance(n, ast.For)]
    if len(fors) != 1 or len([s for s in it.node.body if not isinstance(s, ast.Expr)]) != 1:
        raise AnalysisError("Filter.__iter__ is not a single loop")
    loop = fors[0]
    tgt = loop.target
    okloop = (isinstance(tgt, ast.Tuple) and len(tgt.elts) == 3 and all(isinstance(e, ast.Name) for e in tgt.elts)
              and norm(loop.iter) == "self.slider()" and not loop.orelse)
    if not okloop:
        raise AnalysisError("Filter.__iter__ loop is not `for previous, token, next in self.slider()`")
    pv_name, tok_name, nx_name = [e.id for e in tgt.elts]
    yields = [n for n in walk_no_nested(loop) if isinstance(n, (ast.Yield, ast.YieldFrom))]
    for y in yields:
        key = "yield@%s" % norm(y)
        r.check("R13.2", isinstance(y, ast.Yield) and isinstance(y.value, ast.Name) and y.value.id == tok_name, key,
                "%s:%d" % (it.module.rel, y.lineno), "yields something other than the current source token: %s" % norm(y))
    stores = []
    for n in walk_no_nested(loop):
        if isinstance(n, (ast.Assign, ast.AugAssign, ast.Delete)):
            tg = n.targets if not isinstance(n, ast.AugAssign) else [n.target]
            for t in tg:
                base = t
                while isinstance(base, (ast.Subscript, ast.Attribute)):
                    base = base.value
                if isinstance(base, ast.Name) and base.id in (tok_name, pv_name, nx_name) and base is not t:
                    stores.append(norm(n))
                if isinstance(t, ast.Name) and t.id == tok_name:
                    stores.append(norm(n))
        elif isinstance(n, ast.Call) and isinstance(n.func, ast.Attribute) and isinstance(n.func.value, ast.Name) \
                and n.func.value.id in (tok_name, pv_name, nx_name) and n.func.attr in (
                    "update", "pop", "clear", "setdefault", "popitem", "__setitem__"):
            stores.append(norm(n))
    r.check("R13.2", not stores, "no-store-into-token", it.where, "the filter modifies tokens: %s" % stores)
    check_slider(ctx, tok_name)

    # R13.3: effect table
    opt_calls = {}

    neighbour_changed = []

    def expr_hook(node, env):
        if isinstance(node, ast.Call) and isinstance(node.func, ast.Attribute) and \
                isinstance(node.func.value, ast.Name) and node.func.value.id == "self":
            if node.func.attr in ("is_optional_start", "is_optional_end"):
                a0 = norm(node.args[0]) if node.args else ""
                if a0 != "%s['name']" % tok_name:
                    raise AnalysisError("omission predicate is not asked about the current token: %s" % norm(node))
                opt_calls[node.func.attr] = norm(node)
                # the neighbours the rules are asked about are the stream's own tokens
                for a in node.args[1:]:
                    if isinstance(a, ast.Name) and a.id in (pv_name, nx_name) and "__orig_" + a.id in env and env[a.id] is not env["__orig_" + a.id]:
                        neighbour_changed.append(a.id)
                return env["__" + node.func.attr]
            # a pure helper method of the filter (one level)
            h = it.cls.find_method(node.func.attr) if it.cls is not None else None
            if h is not None and not node.keywords and len(h.params()) == len(node.args) + 1:
                args = [ctx.ce.eval(a, it.module, env) for a in node.args]
                sub = MiniInterp(ctx.ce, it.module, expr_hook=expr_hook).run(h.node.body, dict(zip(h.params()[1:], args), self=Opaque("self")))
                if sub.returned and not sub.effects and not isinstance(sub.value, Opaque):
                    return sub.value
            raise AnalysisError("unexpected call %s" % norm(node))
        return NotImplemented
    interp = MiniInterp(ctx.ce, it.module, expr_hook=expr_hook)
    tab_attr = start_table_with_attributes(ctx)
    omitted_with_attrs = sorted({k[0] for k, v in tab_attr.items() if v}) if tab_attr is not None else None
    NS = {"html": "http://www.w3.org/1999/xhtml", "none": None, "svg": "http://www.w3.org/2000/svg",
          "mathml": "http://www.w3.org/1998/Math/MathML"}
    for ty, data, os_, oe, nsk in [(a, b, c, d, e) for a in TOKEN_TYPES for b in ({}, {(None, "a"): "b"}) for c in (True, False)
                                   for d in (True, False) for e in (("html", "none", "svg", "mathml") if a in ("StartTag", "EndTag") else ("html",))]:
        if True:
            if True:
                if True:
                    if data and os_ and omitted_with_attrs == []:
                        continue        # the predicate is told about the attributes and never approves a tag that has some
                    tok = {"type": ty, "name": "x", "data": data, "namespace": NS[nsk]}
                    # the following token is in the SVG namespace: the rules must be asked about *it* ("</p> before an svg
                    # start tag" is not "no more content")
                    nxt = {"type": "StartTag", "name": "svg", "namespace": NS["svg"], "data": {}}
                    env = {tok_name: tok, pv_name: None, nx_name: nxt, "__orig_" + nx_name: nxt, "__orig_" + pv_name: None, "self": Opaque("self"),
                           "__is_optional_start": os_, "__is_optional_end": oe}
                    del neighbour_changed[:]
                    out = interp.run(loop.body, env)
                    if neighbour_changed:
                        r.bad("R13.3", "neighbour-passed-on[type=%s ns=%s]" % (ty, nsk), it.where,
                              "the omission rules are not asked about the real neighbour: a following tag in the SVG / MathML namespace is "
                              "replaced (by %r) before is_optional_* sees it -- `None` means \"no more content in the parent\", so `</p>` (li, "
                              "td, ...) directly before <svg> is dropped and the svg re-parses inside the p" % (out.env.get(nx_name),))
                        continue
                    ys = [e for e in out.effects if isinstance(e.node, ast.Expr) and isinstance(e.node.value, ast.Yield)]
                    others = [e for e in out.effects if e not in ys]
                    if others:
                        raise AnalysisError("Filter.__iter__ has effects other than yield: %s" % others[:2])
                    foreign = nsk in ("svg", "mathml")
                    may_drop = ((ty == "StartTag" and not data and os_) or (ty == "EndTag" and oe)) and not foreign
                    key = "type=%s attrs=%s optstart=%s optend=%s" % (ty, bool(data), os_, oe) + ("" if nsk == "html" else " ns=%s" % nsk)
                    if len(ys) == 0 and foreign and ((ty == "StartTag" and not data and os_) or (ty == "EndTag" and oe)):
                        r.bad("R13.3", key, it.where,
                              "a %s token of an element in the %s namespace is dropped because its *name* is one whose tag HTML lets one omit: no "
                              "tag of a foreign element may be omitted -- `<svg><td>a</td><td>b</td></svg>` is written `<svg><td>a<td>b</svg>` "
                              "and the second td is read back inside the first" % (ty, nsk), {"namespace": nsk})
                    elif len(ys) == 0:
                        r.check("R13.3", may_drop, key, it.where,
                                "a %s token (attributes: %s) is dropped although it is not an approved attribute-less "
                                "start tag / end tag%s" % (ty, bool(data), (" (start tags approved in spite of attributes: %s)" %
                                                                           [("<other>" if t == FRESH else t) for t in omitted_with_attrs][:8])
                                                          if (data and omitted_with_attrs) else ""), {"path": out.path})
                    elif len(ys) == 1:
                        r.ok("R13.3", key, it.where, detail={"yielded": 1, "may_drop": may_drop})
                    else:
                        r.bad("R13.3", key, it.where, "token yielded %d times" % len(ys))
    if set(opt_calls) != {"is_optional_start", "is_optional_end"}:
        raise AnalysisError("Filter.__iter__ no longer consults both omission predicates: %s" % sorted(opt_calls))

    position_rules(ctx)
    from . import c13_parser
    c13_parser.run(ctx)


# The positions in which HTML allows each tag to be omitted ("Optional tags" in the HTML syntax section), as a function of
# the next token.  next kinds: "element:<name>" (StartTag or EmptyTag), "end" (an end tag: no more content in the parent),
# "eof", "space", "comment", "text", "other".  The filter may omit *less* than this, never more.
def _end_allowed(tag, kind, name):
    nomore = kind in ("end", "eof")
    el = name if kind == "element" else None
    if tag in ("html", "body"):
        return kind != "comment"                      # not immediately followed by a comment
    if tag == "head":
        return kind not in ("comment", "space")
    if tag == "li":
        return el == "li" or nomore
    if tag == "dt":
        return el in ("dt", "dd")
    if tag == "dd":
        return el in ("dd", "dt") or nomore
    if tag == "p":
        return el in ("address", "article", "aside", "blockquote", "details", "dialog", "div", "dl", "fieldset", "figcaption",
                      "figure", "footer", "form", "h1", "h2", "h3", "h4", "h5", "h6", "header", "hgroup", "hr", "main", "menu",
                      "nav", "ol", "p", "pre", "section", "table", "ul", "dir", "datagrid", "center") or nomore
    if tag in ("rt", "rp"):
        return el in ("rt", "rp") or nomore
    if tag == "optgroup":
        return el == "optgroup" or nomore
    if tag == "option":
        return el in ("option", "optgroup") or nomore
    if tag == "colgroup":
        return kind not in ("comment", "space")
    if tag == "thead":
        return el in ("tbody", "tfoot")
    if tag == "tbody":
        return el in ("tbody", "tfoot") or nomore
    if tag == "tfoot":
        return nomore or el == "tbody"               # html5lib's historical rule (tfoot before tbody) is tolerated
    if tag == "tr":
        return el == "tr" or nomore
    if tag in ("td", "th"):
        return el in ("td", "th") or nomore
    return False


def _start_allowed(tag, kind, name):
    el = name if kind == "element" else None
    if tag == "html":
        return kind != "comment"
    if tag == "head":
        return kind == "element" or (kind == "end" and name == "head")   # empty head
    if tag == "body":
        # meta / link are judged by R13.4c against the parser's own after-head table (known findings there)
        return kind not in ("comment", "space") and el not in ("script", "style", "template")
    if tag == "colgroup":
        return el == "col"
    if tag == "tbody":
        return el == "tr"
    return False


def position_rules(ctx):
    """R13.5: every cell of the decision tables in which the filter omits a tag is a position in which HTML allows the
    omission (as a function of the next token; the filter may be stricter)."""
    r = ctx.r
    r.rule("R13.5", "each (tag, next token) cell in which the filter omits the tag is a position where HTML allows the omission", floor=300)
    fs, fe, names_s, tab_s, names_e, tab_e = tables(ctx)
    void = set(ctx.ce.const("constants.py", "voidElements"))

    def kind_of(nty, nname):
        if nty is None:
            return "eof"
        if nty in ("StartTag", "EmptyTag"):
            return "element"
        if nty == "EndTag":
            return "end"
        return {"SpaceCharacters": "space", "Comment": "comment", "Characters": "text"}.get(nty, "other")
    for label, func, tab, allowed in (("end", fe, tab_e, _end_allowed), ("start", fs, tab_s, _start_allowed)):
        seen = set()
        for (tag, nty, nname, pv), v in tab.items():
            if not v:
                continue
            kind = kind_of(nty, nname)
            if nty == "EmptyTag" and nname not in void:
                continue        # tree walkers emit EmptyTag exactly for void elements (C10); other cells are unreachable
            nm = nname if nname != FRESH else "<other>"
            key = "%s:%s before %s%s" % (label, tag if tag != FRESH else "<other>", kind, (":" + nm) if kind in ("element",) or (kind == "end" and label == "start") else "")
            if key in seen:
                continue
            seen.add(key)
            ok = allowed(tag, kind, nname if nname != FRESH else None)
            r.check("R13.5", ok, key, func.where,
                    "the filter omits the %s tag of <%s> when the next token is %s%s; HTML does not allow the omission there"
                    % (label, tag, nty, (" " + nm) if nname else ""), {"tag": tag, "next": [nty, nm]},
                    detail={"tag": tag, "next": kind})


def check_slider(ctx, tok_name):
    """slider(): two-register delay line yielding (prev, cur, next) for each source token."""
    r = ctx.r
    f = ctx.repo.func("filters/optionaltags.py", "Filter.slider")
    body = [s for s in f.node.body if not (isinstance(s, ast.Expr) and isinstance(s.value, ast.Constant))]
    try:
        init, loop, post = body
        assert isinstance(init, ast.Assign) and isinstance(loop, ast.For) and isinstance(post, ast.If)
        regs = [t.id for t in init.targets]
        assert len(regs) == 2 and isinstance(init.value, ast.Constant) and init.value.value is None
        assert norm(loop.iter) == "self.source" and isinstance(loop.target, ast.Name) and not loop.orelse
        T = loop.target.id
    except (ValueError, AssertionError, AttributeError):
        raise AnalysisError("Filter.slider is not the recognised delay-line idiom")
    # identify registers by the post-loop yield: (R2, R1, None) guarded by `R1 is not None`
    def guard_reg(ifnode):
        t = ifnode.test
        if isinstance(t, ast.Compare) and isinstance(t.left, ast.Name) and len(t.ops) == 1 and \
                isinstance(t.ops[0], ast.IsNot) and isinstance(t.comparators[0], ast.Constant) and \
                t.comparators[0].value is None:
            return t.left.id
        return None
    def yield_tuple(stmts):
        if len(stmts) == 1 and isinstance(stmts[0], ast.Expr) and isinstance(stmts[0].value, ast.Yield) and \
                isinstance(stmts[0].value.value, ast.Tuple):
            return [norm(e) for e in stmts[0].value.value.elts]
        return None
    R1 = guard_reg(post)
    pt = yield_tuple(post.body)
    if R1 is None or pt is None or R1 not in regs or post.orelse:
        raise AnalysisError("Filter.slider: unrecognised flush after the loop")
    R2 = [x for x in regs if x != R1][0]
    r.check("R13.2", pt == [R2, R1, "None"], "slider-flush", "%s:%d" % (f.module.rel, post.lineno),
            "the last token is not flushed as (previous, last, None): yields %s" % pt)
    lb = loop.body
    ok = False
    detail = [norm(s) for s in lb]
    if len(lb) == 3 and isinstance(lb[0], ast.If) and guard_reg(lb[0]) == R1 and not lb[0].orelse:
        yt = yield_tuple(lb[0].body)
        ok = (yt == [R2, R1, T] and norm(lb[1]) == "%s = %s" % (R2, R1) and norm(lb[2]) == "%s = %s" % (R1, T))
    else:
        # a different shape is an analysis error unless it is a permutation of the idiom's statements
        want = sorted(["%s = %s" % (R2, R1), "%s = %s" % (R1, T)])
        have = sorted(norm(s) for s in lb if isinstance(s, ast.Assign))
        if have != want or not any(isinstance(s, ast.If) for s in lb):
            raise AnalysisError("Filter.slider loop body is not the recognised delay-line idiom: %s" % detail)
    r.check("R13.2", ok, "slider-delay-line", "%s:%d" % (f.module.rel, loop.lineno),
            "slider() no longer yields (previous, current, next) for every source token in order: %s" % detail,
            detail={"registers": [R2, R1], "loop": detail})


def mutants():
    from ..selftest import TextMutant as T
    return [
        T("foreign-tags-omitted", "filters/optionaltags.py", "                    token.get(\"namespace\") not in (None, namespaces[\"html\"])):", "                    False):", "R13.3"),
        T("foreign-end-tags-omitted", "filters/optionaltags.py", "            if (type in (\"StartTag\", \"EndTag\") and\n                    token.get(", "            if (type in (\"StartTag\",) and\n                    token.get(", "R13.3"),
        T("html-substring", "filters/optionaltags.py", "if tagname == 'html':", "if tagname in 'html':", "R13.1"),
        T("extra-end-name", "filters/optionaltags.py", "elif tagname in ('td', 'th'):", "elif tagname in ('td', 'th', 'caption'):", "R13.1"),
        T("drop-with-attrs", "filters/optionaltags.py",
          "if (token[\"data\"] or\n                        not self.is_optional_start(token[\"name\"], previous, next)):",
          "if (not self.is_optional_start(token[\"name\"], previous, next)):", "R13.3"),
        T("drop-empty-tag", "filters/optionaltags.py", 'elif type == "EndTag":\n                if not self.is_optional_end',
          'elif type in ("EndTag", "EmptyTag"):\n                if not self.is_optional_end', "R13.3"),
        T("slider-swap", "filters/optionaltags.py", "            previous2 = previous1\n            previous1 = token\n",
          "            previous1 = token\n            previous2 = previous1\n", "R13.2"),
        T("yield-next", "filters/optionaltags.py", "            else:\n                yield token", "            else:\n                yield next", "R13.2"),
        T("p-before-span", "filters/optionaltags.py", "'p', 'pre', 'section', 'table', 'ul')", "'p', 'pre', 'section', 'span', 'table', 'ul')", "R13.4a"),
        T("rt-before-anything", "filters/optionaltags.py",
          "                return next[\"name\"] in ('rt', 'rp')\n            else:\n                return type == \"EndTag\" or type is None",
          "                return next[\"name\"] in ('rt', 'rp')\n            else:\n                return True", "R13.5"),
        T("thead-at-end", "filters/optionaltags.py", "            elif tagname == 'tbody':\n                return type == \"EndTag\" or type is None",
          "            elif tagname in ('tbody', 'thead'):\n                return type == \"EndTag\" or type is None", "R13.5"),
        T("head-end-before-space", "filters/optionaltags.py", "if tagname in ('html', 'head', 'body'):\n            # An html element's end tag may be omitted if the html element\n            # is not immediately followed by a space character or a comment.\n            return type not in (\"Comment\", \"SpaceCharacters\")",
          "if tagname in ('html', 'head', 'body'):\n            return type != \"Comment\"", "R13.5"),
        T("li-before-any-start", "filters/optionaltags.py",
          "            if type == \"StartTag\":\n                return next[\"name\"] == tagname\n",
          "            if type == \"StartTag\":\n                return next[\"name\"] in (tagname, 'div')\n", "R13.4a"),
    ]


def preserving():
    from ..selftest import TextMutant as T
    return [
        T("tuple-to-set", "filters/optionaltags.py", "elif tagname in ('td', 'th'):", "elif tagname in {'th', 'td'}:", None),
        T("eq-chain", "filters/optionaltags.py", "elif tagname in ('rt', 'rp'):", "elif tagname == 'rt' or tagname == 'rp':", None),
        T("rename-loop-var", "filters/optionaltags.py", "if tagname in ('html', 'head', 'body'):",
          "if tagname in ('body', 'head', 'html'):", None),
    ]


def thorough(ctx):
    from .. import selftest
    selftest.run(ctx, sys.modules[__name__])
