"""C08 -- serializer output is lexically faithful or an error is reported (writer/reader agreement).

S1  TEXT       ordinary text reaches the output only through escape(), which covers the data-state delimiters
S2  RAW TEXT   the serializer's raw-text decision agrees with the parser's content-model map:
               (a) only unconditional RAWTEXT/script elements, (b) depends on the namespace, (c) PLAINTEXT is reported
S3  "</" test dominates raw emission
S7  every component of the attribute key reaches the output or an error
S8  doctype identifiers interpolated inside a quote are tested for that quote
S9  "--" test dominates comment emission
Q*  attribute quoting / escaping / follow set (shared with C07)
"""
from __future__ import annotations

import ast
import re
import sys

from ..repo import AnalysisError, attr_chain, norm, walk_no_nested
from ..cfg import CFG, node_calls
from ..partition import ATOMS, atom_name
from .c02 import tokmodel, norm_impl_ops, short
from .c01 import cmm

LEVEL = "other"
TECHNIQUE = ("reader/writer agreement: the serializer's text / doctype arms are evaluated on representatives (each data-state delimiter alone, at token edges and doubled; identifiers with either quote) and read back the way the tokenizer model does; quoting classes and raw-text table compared with sets computed from the tokenizer model and the parser's content-model map; CFG dominance of error checks over emission; taint dataflow for the one-token lifetime of the after-start-tag flag")
CLAIM = ("For each lexical context the serializer writes into, the characters that are special to the tokenizer in that "
         "context (computed from the extracted tokenizer model, not assumed) are escaped, quoted or reported before emission "
         "on every path; the raw-text element set is compared with the parser's content-model switches; every error check "
         "dominates the emission it guards."
         " The text arm is *evaluated* for every data-state delimiter alone, at either end of a token and doubled; U+000D must come out as a reference (known finding: it does not, the suite pins it); text starting with LF directly after an HTML pre / textarea / listing start tag gets the extra LF and the flag lives for one token; the doctype arm's output is read back for both quote_char settings; the trailing solidus is for HTML void elements only; script text that enters the double-escaped state is not reported (known finding).")
NOT_DECIDED = ("comment edge cases relative to "
               "producible data (leading '>', trailing '-'), element/attribute names containing delimiter characters.")
MODULES = ["serializer.py", "constants.py", "_tokenizer.py", "html5parser.py", "treewalkers/base.py"]
REL = "serializer.py"


def canonical_serialize(f):
    """HTMLSerializer.serialize with its locals renamed, by role, to the names the rules are written in (token, type, name,
    in_cdata, attr_name, attr_value, k, v, quote_attr, quote_char, doctype)."""
    import copy
    from ..repo import discover_locals, rename_locals

    def simple(st):
        return isinstance(st, ast.Assign) and len(st.targets) == 1 and isinstance(st.targets[0], ast.Name)
    loops = [s for s in ast.walk(f.node) if isinstance(s, ast.For) and isinstance(s.target, ast.Name) and norm(s.iter) == "treewalker"]
    tokv = loops[0].target.id if len(loops) == 1 else None
    if tokv is None:
        return f
    mapping = {tokv: "token"}
    attr_loop = [s for s in ast.walk(f.node) if isinstance(s, ast.For) and isinstance(s.target, ast.Tuple) and len(s.target.elts) == 2
                 and isinstance(s.target.elts[0], ast.Tuple) and len(s.target.elts[0].elts) == 2 and norm(s.iter) == "%s['data'].items()" % tokv]
    an = av = None
    if len(attr_loop) == 1:
        (_a, b), c = attr_loop[0].target.elts[0].elts, attr_loop[0].target.elts[1]
        if isinstance(b, ast.Name) and isinstance(c, ast.Name):
            an, av = b.id, c.id
            mapping.update({an: "attr_name", av: "attr_value"})
    trues = {st.targets[0].id for st in ast.walk(f.node) if simple(st) and isinstance(st.value, ast.Constant) and st.value.value is True}
    roles = [
        ("type", lambda st: st.targets[0].id if simple(st) and norm(st.value) == "%s['type']" % tokv else None),
        ("name", lambda st: st.targets[0].id if simple(st) and norm(st.value) == "%s['name']" % tokv else None),
        ("in_cdata", lambda st: st.targets[0].id if simple(st) and isinstance(st.value, ast.Constant) and st.value.value is False
         and st.targets[0].id in trues and st in f.node.body else None),
        ("k", lambda st: st.targets[0].id if simple(st) and an and norm(st.value) == an else None),
        ("v", lambda st: st.targets[0].id if simple(st) and av and norm(st.value) == av else None),
        ("quote_attr", lambda st: st.targets[0].id if simple(st) and ".search(" in norm(st.value) and "is not None" in norm(st.value) else None),
        ("quote_char", lambda st: st.targets[0].id if simple(st) and norm(st.value) == "self.quote_char" else None),
        ("doctype", lambda st: st.targets[0].id if simple(st) and "<!DOCTYPE" in norm(st.value) else None),
    ]
    mapping.update(discover_locals(f.node, roles))
    g = copy.copy(f)
    g.node = rename_locals(f.node, mapping)
    return g


def serialize_cfg(ctx):
    def build():
        f = canonical_serialize(ctx.repo.func(REL, "HTMLSerializer.serialize"))
        return f, CFG(f.node)
    return ctx.shared("serialize_cfg", build)


def yields(cfg):
    out = []
    for n in cfg.stmt_nodes():
        if n.kind == "stmt" and isinstance(n.ast, ast.Expr) and isinstance(n.ast.value, ast.Yield):
            out.append(n)
    return out


def type_arm(cfg, node, names):
    """is `node` dominated by a true edge of a test `type == X` / `type in (...)` whose constants are within `names`"""
    def pred(n, lab):
        if n.kind != "test" or lab is not True or not isinstance(n.ast, ast.Compare):
            return False
        if norm(n.ast.left) != "type":
            return False
        consts = {c.value for c in ast.walk(n.ast.comparators[0]) if isinstance(c, ast.Constant)}
        return bool(consts) and consts <= set(names)
    return cfg.dominated_by(node, pred)


def data_delimiters(tm):
    """characters that the data state does not simply emit"""
    out = set()
    for a in ATOMS:
        if not isinstance(a, str) or a == "\r":
            continue
        arm = tm.arm("dataState", a)
        if norm_impl_ops(arm.ops) != [("emit", a)] or arm.next not in (None, "dataState"):
            out.add(a)
    return out


def unquoted_special(tm):
    """(D, END): D = characters that at the start of / inside an unquoted attribute value do anything other than
    being appended to the value; END = characters that end an unquoted value without being absorbed"""
    D, END = set(), set()
    for a in ATOMS:
        if not isinstance(a, str) or a == "\r":
            continue
        b = tm.arm("beforeAttributeValueState", a)
        u = tm.arm("attributeValueUnQuotedState", a)
        plain_b = norm_impl_ops(b.ops) == [("append", "attrvalue", a)] and b.next == "attributeValueUnQuotedState" and not b.unget
        plain_u = norm_impl_ops(u.ops) == [("append", "attrvalue", a)] and u.next in (None, "attributeValueUnQuotedState")
        if not (plain_b and plain_u):
            D.add(a)
        if u.next not in (None, "attributeValueUnQuotedState") and not any(o[0] == "append" for o in u.ops):
            END.add(a)
    return D, END


def regex_class(ctx, name):
    """character set of a module-level `re.compile("[...]")` literal in serializer.py"""
    mod = ctx.repo.module(REL)
    for st in mod.tree.body:
        if isinstance(st, ast.Assign) and isinstance(st.targets[0], ast.Name) and st.targets[0].id == name:
            v = st.value
            if isinstance(v, ast.Call) and norm(v.func) == "re.compile" and v.args:
                pat = ctx.ce.eval(v.args[0], mod)
                import re._parser as sp   # noqa
                parsed = sp.parse(pat)
                if len(parsed) != 1 or parsed[0][0] != sp.IN:
                    raise AnalysisError("%s is not a single character class" % name)
                chars = set()
                for op, arg in parsed[0][1]:
                    if op == sp.LITERAL:
                        chars.add(chr(arg))
                    elif op == sp.RANGE:
                        chars |= {chr(c) for c in range(arg[0], arg[1] + 1)}
                    else:
                        raise AnalysisError("%s: unsupported class item %s" % (name, op))
                return chars
    raise AnalysisError("serializer.%s vanished" % name)


def run(ctx):
    r = ctx.r
    r.explanation = (
        "HTMLSerializer.serialize is analysed on its CFG per token-type arm; the sets it escapes / quotes on are compared with "
        "sets derived from the tokenizer model (data-state delimiters, characters special in unquoted attribute values) and "
        "the parser's element -> tokenizer-state map.")
    r.not_decided = NOT_DECIDED
    r.rule("S1", "text outside raw-text elements is emitted only through escape(), which covers the data-state delimiters", floor=2)
    r.rule("S2", "raw-text element decision agrees with the parser's content-model switches (unconditional, namespaced, plaintext)", floor=8)
    r.rule("S3", "the '</' check dominates raw text emission", floor=1)
    r.rule("S4", "a tag token of either kind inside a raw-text element is reported", floor=3)
    r.rule("S7", "every component of an attribute key is emitted or reported", floor=1)
    r.rule("S8", "doctype identifiers are checked for the quote they are written in", floor=2)
    r.rule("S9", "the '--' check dominates comment emission", floor=1)
    text_rules(ctx)
    cr_and_leading_lf(ctx)
    solidus_and_script_rules(ctx)
    rawtext_rules(ctx)
    child_in_rawtext_rule(ctx)
    attr_key_rule(ctx)
    doctype_rule(ctx)
    doctype_evaluated(ctx)
    comment_rule(ctx)
    from . import c07
    c07.declare(ctx)
    c07.quoting(ctx)
    c07.follow(ctx)
    c07.escaping(ctx)


def _free_flags(arm):
    """names read in the text arm that are plain local flags other than the token / type / in_cdata (bound False when evaluating)"""
    names = {n.id for st in arm.body for n in ast.walk(st) if isinstance(n, ast.Name) and isinstance(n.ctx, ast.Load)}
    return sorted(names - {"type", "in_cdata", "token", "self", "escape", "True", "False", "None"})


def _type_test_values(test):
    """the set of token types a test `type == X` / `type in (...)` / `type == X or type == Y` accepts, else None"""
    from ..repo import membership_test
    def ev(n):
        return n.value if isinstance(n, ast.Constant) else tuple(e.value for e in n.elts) if isinstance(n, (ast.Tuple, ast.List, ast.Set)) and \
            all(isinstance(e, ast.Constant) for e in n.elts) else None
    mt = membership_test(test, ev)
    if mt is not None and mt[0] == "type":
        return set(mt[1])
    return None


def _text_arm(f):
    """the `elif type in ("Characters", "SpaceCharacters")` arm of the token loop"""
    for n in ast.walk(f.node):
        if isinstance(n, ast.If) and _type_test_values(n.test) == {"Characters", "SpaceCharacters"}:
            return n
    return None


def emitted_text(ctx, f, arm, ttype, in_cdata, data, extra_env=None):
    """what the text arm writes for one token, evaluated (self.encode / encodeStrict are the identity on str when no encoding is
    set; xml.sax.saxutils.escape is the standard library's documented pure function): (output string, [serializeError texts])"""
    from xml.sax.saxutils import escape as sax_escape
    from ..partition import MiniInterp, Opaque
    ce = ctx.ce
    out, errs = [], []

    import re as _re
    compiled = {}
    for st_ in f.module.tree.body:
        if isinstance(st_, ast.Assign) and len(st_.targets) == 1 and isinstance(st_.targets[0], ast.Name) and isinstance(st_.value, ast.Call) and \
                norm(st_.value.func) == "re.compile" and st_.value.args:
            pat_ = ce.try_eval(st_.value.args[0], f.module)
            flags_ = 0
            if len(st_.value.args) > 1:
                flags_ = {"re.I": _re.I, "re.IGNORECASE": _re.I, "re.S": _re.S, "re.M": _re.M, "re.X": _re.X, "re.A": _re.A}.get(norm(st_.value.args[1]))
            if isinstance(pat_, str) and flags_ is not None:
                try:
                    compiled[st_.targets[0].id] = _re.compile(pat_, flags_)
                except _re.error:
                    pass

    def hook(node, local, depth=0):
        if isinstance(node, ast.Call):
            fn = norm(node.func)
            if fn in ("self.encode", "self.encodeStrict") and len(node.args) == 1:
                return ce.eval(node.args[0], f.module, local)
            if fn == "escape" and f.module.imports.get("escape") == ("xml.sax.saxutils", "escape"):
                args = [ce.eval(a, f.module, local) for a in node.args]
                return sax_escape(*args)
            # a compiled module-level pattern: <name>.sub(repl, text) with constant arguments
            if isinstance(node.func, ast.Attribute) and isinstance(node.func.value, ast.Name) and node.func.value.id in compiled and \
                    node.func.attr == "sub" and len(node.args) in (2, 3) and not node.keywords:
                args = [ce.eval(a, f.module, local) for a in node.args]
                if all(isinstance(a, (str, int)) for a in args):
                    return compiled[node.func.value.id].sub(*args)
            # a pure helper function of the module (one level)
            if isinstance(node.func, ast.Name) and node.func.id in f.module.functions and not node.keywords:
                h = f.module.functions[node.func.id]
                if len(h.params()) == len(node.args):
                    args = [ce.eval(a, f.module, local) for a in node.args]
                    sub = MiniInterp(ce, f.module, expr_hook=hook).run(h.node.body, dict(zip(h.params(), args)))
                    if sub.returned and not sub.effects and not isinstance(sub.value, Opaque):
                        return sub.value
        return NotImplemented

    def stmt_hook(st, o, interp):
        if isinstance(st, ast.Expr) and isinstance(st.value, ast.Yield):
            out.append(interp.eval_expr(st.value.value, o.env))
            return False
        if isinstance(st, ast.Expr) and isinstance(st.value, ast.Call) and norm(st.value.func) == "self.serializeError":
            errs.append(norm(st.value))
            return False
        return NotImplemented
    env = {"type": ttype, "in_cdata": in_cdata, "token": {"type": ttype, "data": data}, "self": Opaque("self")}
    env.update(extra_env or {})
    MiniInterp(ce, f.module, expr_hook=hook, stmt_hook=stmt_hook).run(arm.body, env)
    return "".join(out), errs


def text_rules(ctx):
    r = ctx.r
    f, cfg = serialize_cfg(ctx)
    tm = tokmodel(ctx)
    ys = [y for y in yields(cfg) if type_arm(cfg, y, {"Characters", "SpaceCharacters"})]
    raw = [y for y in ys if norm(y.ast.value.value) == "self.encode(token['data'])"]
    arm = _text_arm(f)
    delims = data_delimiters(tm) - {"\x00"}
    r.check("S1", set("&<") <= delims, "delimiters-computed", "_tokenizer.py",
            "the tokenizer model no longer reports & and < as data-state delimiters: %s" % sorted(delims))
    if arm is None:
        r.idiom("S1", False, "text-escape", f.where, "serialize: the arm for character tokens was not found")
    else:
        # S1: outside raw-text elements no data-state delimiter reaches the output as itself
        extra = {}
        for nm in _free_flags(arm):
            extra[nm] = False
        for ttype, chars in (("Characters", sorted(delims | {"a"})), ("SpaceCharacters", [" ", "\t", "\n", "\x0c"])):
            for c in chars:
                key = "text-escape[%s %r]" % (ttype, c)
                try:
                    got, errs = emitted_text(ctx, f, arm, ttype, False, "x" + c + "y", extra)
                    # the same character alone, at either end of the token and doubled: what follows a token is not known when
                    # it is written (the DOM back-end keeps one text node per tokenizer token), so the escaping of a delimiter
                    # cannot depend on its neighbours inside the token
                    edge = {}
                    if c in delims:
                        import re as _re
                        for d_ in (c, "x" + c, c + "y", c + c):
                            o_, _e = emitted_text(ctx, f, arm, ttype, False, d_, extra)
                            rest = _re.sub(r"&(amp|lt|gt|quot|apos|#[0-9]+|#[xX][0-9a-fA-F]+);", "", o_)
                            if c in rest or "&" in rest or "<" in rest:
                                edge[d_] = o_
                except Exception as e:      # noqa: BLE001
                    r.idiom("S1", False, key, f.where, "text emission not decidable for %r (%s)" % (c, str(e)[:80]))
                    continue
                if edge:
                    d_, o_ = sorted(edge.items())[0]
                    r.bad("S1", key, "%s:%d" % (REL, arm.lineno),
                          "the text token %r is written as %r: the %r is left as it is when nothing (or nothing suspicious) follows it *inside the token*, "
                          "but the next token continues the text -- with the DOM back-end `&amp;lt;b&amp;gt;` is the node sequence `&`, `lt;b`, ... and is written "
                          "as `&lt;b&gt;`, which a parser reads as markup" % (d_, o_, c), {"token": d_, "written": o_})
                    continue
                if c in delims:
                    body = got[1:-1] if got.startswith("x") and got.endswith("y") else None
                    ok = body is not None and c != body and (c not in body or (c == "&" and body.startswith("&") and body.endswith(";"))) \
                        and body.startswith("&") and body.endswith(";")
                    r.check("S1", ok, key, "%s:%d" % (REL, arm.lineno),
                            "the character %r in the text of an ordinary element is written as %r: a parser reading the output takes it for markup / "
                            "the start of a character reference" % (c, got), detail={"written": got})
                else:
                    r.check("S1", got == "x" + c + "y", key, "%s:%d" % (REL, arm.lineno),
                            "the character %r in the text of an ordinary element is written as %r: text is altered" % (c, got), detail={"written": got})
    # S3
    if raw:
        def lt_slash(n):
            return any(norm(c) == "self.serializeError('Unexpected </ in CDATA')" for c in node_calls(n))
        tests = [n for n in cfg.nodes if n.kind == "test" and "find('</') >= 0" in norm(n.ast)]
        # on every path on which in_cdata holds (each evaluation of the flag takes its true edge -- the flag is a
        # local that is not assigned between the tests), the '</' test is evaluated before the yield
        def edge_ok(src, dst, lab):
            if src.kind == "test" and norm(src.ast) == "in_cdata" and lab is False:
                return False
            return True
        par = cfg.reach_backward(raw, lambda n: n in tests, edge_ok)
        r.check("S3", bool(tests) and cfg.entry.id not in par, "lt-slash-check", "%s:%d" % (REL, raw[0].lineno),
                "raw text can be emitted without checking it for '</'", detail={"dominated": True})


def cr_and_leading_lf(ctx):
    """S10: U+000D cannot be written as itself -- the input stream of every HTML parser turns CR and CR LF into LF before
    tokenising, so a CR in text or in an attribute value (it gets into a tree through `&#13;`) has to be written as a character
    reference, or reported.  S11: the parser drops one LF directly after the start tag of pre, textarea and listing, so text of
    such an element that itself begins with LF has to be preceded by an extra LF (the standard's serialisation algorithm says so)."""
    r = ctx.r
    if "S10" not in r.rules:
        r.rule("S10", "U+000D in text and attribute values is written as a character reference (or reported): it does not survive input-stream preprocessing", floor=4)
        r.rule("S11", "text that begins with LF directly after a pre / textarea / listing start tag is preceded by an extra LF", floor=3)
    f, cfg = serialize_cfg(ctx)
    arm = _text_arm(f)
    if arm is None:
        r.idiom("S10", False, "cr-in-text", f.where, "serialize: the arm for character tokens was not found")
        return
    extra = {nm: False for nm in _free_flags(arm)}
    if True:
            # S10: U+000D cannot be written as itself -- every parser's input stream turns CR (and CR LF) into LF before tokenising
            for ttype, data in (("Characters", "x\ry"), ("SpaceCharacters", "\r"), ("SpaceCharacters", " \r\n")):
                key = "cr-in-text[%s %r]" % (ttype, data)
                try:
                    got, errs = emitted_text(ctx, f, arm, ttype, False, data, extra)
                except Exception as e:      # noqa: BLE001
                    r.idiom("S10", False, key, f.where, "text emission not decidable (%s)" % str(e)[:80])
                    continue
                r.check("S10", "\r" not in got or bool(errs), key, "%s:%d" % (REL, arm.lineno),
                        "a U+000D in %s text is written as itself (%r) and no error is reported: the input stream of the parser that reads the "
                        "output turns it into U+000A, so `<p>x&#13;y` comes back as `x\\ny`" % ("white-space" if ttype == "SpaceCharacters" else "ordinary", got),
                        detail={"written": got})
    # attribute values: on every path the value written has had its CR replaced by a character reference
    def mentions_v(y):
        return any(isinstance(x, ast.Name) and x.id == "v" for x in ast.walk(y.ast.value.value))
    ys = [y for y in yields(cfg) if mentions_v(y)]

    def cr_repl(n):
        if not (n.kind == "stmt" and isinstance(n.ast, ast.Assign) and norm(n.ast.targets[0]) == "v" and isinstance(n.ast.value, ast.Call)
                and norm(n.ast.value.func) == "v.replace" and len(n.ast.value.args) == 2):
            return False
        a, b = (ctx.ce.try_eval(x, f.module) for x in n.ast.value.args)
        return a == "\r" and isinstance(b, str) and b.lower() in ("&#13;", "&#xd;", "&#x0d;", "&#013;")
    if not ys:
        r.idiom("S10", False, "cr-in-attribute-value", f.where, "serialize: attribute value emissions not found")
    else:
        bad = cfg.must_precede(ys, cr_repl)
        r.check("S10", not bad, "cr-in-attribute-value", "%s:%d" % (REL, ys[0].lineno),
                "an attribute value is written without replacing U+000D by a character reference: `<p title=\"a&#13;b\">` is written with a raw "
                "CR, which the input stream of the parser reading it turns into U+000A", detail={"on_every_path": not bad})
    # S11: evaluate the arm for the first text token after a start tag of pre / textarea / listing / div
    starts = [n for n in ast.walk(f.node) if isinstance(n, ast.If) and _type_test_values(n.test) == {"StartTag", "EmptyTag"}]
    flags = _free_flags(arm)
    # a flag the start-tag arm sets from the element name and the text arm reads
    setters = {}
    # a flag may be a per-iteration copy of a variable that the start-tag arm sets (`first = pending; pending = False` at the top of the loop)
    copies = {}
    for a in ast.walk(f.node):
        if isinstance(a, ast.Assign) and len(a.targets) == 1 and isinstance(a.targets[0], ast.Name) and a.targets[0].id in flags and \
                isinstance(a.value, ast.Name):
            copies[a.value.id] = a.targets[0].id
    if starts:
        for a in (x for st in starts[0].body for x in ast.walk(st)):
            if isinstance(a, ast.Assign) and len(a.targets) == 1 and isinstance(a.targets[0], ast.Name):
                tid = a.targets[0].id
                if tid in flags:
                    setters[tid] = a.value
                elif tid in copies:
                    setters[copies[tid]] = a.value
    # the flag lives for exactly one token: whatever the start-tag arm stores must not reach the text arm's read after a token
    # other than the one directly following the start tag (an end tag, a comment: `<pre></pre>\\nx`, `<pre><!--c-->\\nx`)
    if setters:
        loop = next((n for n in cfg.nodes if n.kind == "loopiter" and isinstance(n.ast, ast.For) and norm(n.ast.iter) == "treewalker"), None)
        set_nodes = [n for n in cfg.stmt_nodes() if n.kind == "stmt" and isinstance(n.ast, ast.Assign) and len(n.ast.targets) == 1 and
                     isinstance(n.ast.targets[0], ast.Name) and (n.ast.targets[0].id in flags or n.ast.targets[0].id in copies) and
                     any(x is n.ast for st in starts[0].body for x in ast.walk(st))]
        read_nodes = [n for n in cfg.stmt_nodes() if n.kind == "test" and any(isinstance(x, ast.Name) and x.id in flags for x in ast.walk(n.ast)) and
                      any(x is n.ast for st in arm.body for x in ast.walk(st))]
        if loop is None or not set_nodes or not read_nodes:
            r.idiom("S11", False, "flag-lives-one-token", "%s:%d" % (REL, arm.lineno), "the life time of the after-start-tag flag was not recognised")
        else:
            survived = None
            seen = set()
            work = [(set_nodes[0], frozenset([set_nodes[0].ast.targets[0].id]), 0)]
            while work and survived is None:
                node, taint, crossings = work.pop()
                for nxt, lab in node.succ:
                    t, c = set(taint), crossings
                    if nxt.kind == "loopiter" and nxt is loop:
                        c += 1
                        if c > 2:
                            continue
                    if nxt.kind == "stmt" and isinstance(nxt.ast, ast.Assign) and len(nxt.ast.targets) == 1 and isinstance(nxt.ast.targets[0], ast.Name):
                        tgt = nxt.ast.targets[0].id
                        if isinstance(nxt.ast.value, ast.Name) and nxt.ast.value.id in t:
                            t.add(tgt)
                        elif nxt is not set_nodes[0] or c > 0:
                            t.discard(tgt)
                    if not t:
                        continue
                    if nxt in read_nodes and c >= 2 and any(isinstance(x, ast.Name) and x.id in t for x in ast.walk(nxt.ast)):
                        survived = nxt
                        break
                    key = (nxt.id, frozenset(t), c)
                    if key not in seen:
                        seen.add(key)
                        work.append((nxt, frozenset(t), c))
            r.check("S11", survived is None, "flag-lives-one-token", "%s:%d" % (REL, set_nodes[0].lineno),
                    "what the start-tag arm stores in `%s` can still be seen by the text arm two tokens later: a token that is not text (an end tag, "
                    "a comment) does not clear it, so `<pre></pre>\\nx` / `<textarea></textarea>\\n` / `<pre><!--c-->\\nx` get an extra newline that "
                    "no parser drops" % set_nodes[0].ast.targets[0].id)
    html_ns = "http://www.w3.org/1999/xhtml"
    svg_ns = "http://www.w3.org/2000/svg"
    for elem, ens in (("pre", html_ns), ("textarea", html_ns), ("listing", html_ns), ("textarea", None), ("div", html_ns), ("textarea", svg_ns)) + \
            tuple((e_, html_ns) for e_ in ("title", "style", "script", "xmp", "iframe", "noembed", "noframes", "noscript", "plaintext", "p", "option", "code")):
        key = "leading-lf[%s]" % elem + ("" if ens == html_ns else "[namespace %s]" % ("none" if ens is None else "svg"))
        if not setters:
            r.idiom("S11", False, key, "%s:%d" % (REL, arm.lineno), "no state is carried from a start tag to the text that follows it",
                    wrong=[(not flags, "the text of <%s> is written as it is: `<%s>\\n\\nx</%s>` (text \"\\nx\" in the tree) is written as `<%s>\\nx`, and the "
                                       "parser drops the LF after the start tag: the text comes back as \"x\"" % (elem, elem, elem, elem))])
            continue
        env = dict(extra)
        try:
            for nm, val in setters.items():
                env[nm] = ctx.ce.eval(val, f.module, {"name": elem, "type": "StartTag",
                                                       "token": {"name": elem, "type": "StartTag", "data": {}, "namespace": ens}})
            got, errs = emitted_text(ctx, f, arm, "Characters", False, "\nx", env)
            got_sp, _ = emitted_text(ctx, f, arm, "SpaceCharacters", False, "\n", env)
        except Exception as e:      # noqa: BLE001
            r.idiom("S11", False, key, "%s:%d" % (REL, arm.lineno), "first text after <%s> not decidable (%s)" % (elem, str(e)[:80]))
            continue
        if elem not in ("pre", "textarea", "listing") or ens == svg_ns:
            r.check("S11", got == "\nx" and got_sp == "\n", key, "%s:%d" % (REL, arm.lineno),
                    "text beginning with LF directly after <%s>%s is written as %r / %r: no parser drops a newline there (an SVG element "
                    "named textarea is an ordinary foreign element), a character is added"
                    % (elem, " in the SVG namespace" if ens == svg_ns else "", got, got_sp), detail={"written": got})
            continue
        r.check("S11", got == "\n\nx" and got_sp == "\n\n", key, "%s:%d" % (REL, arm.lineno),
                "text beginning with LF directly after <%s> is written as %r / %r: the parser drops the first LF after the start tag, so the "
                "text loses its first character" % (elem, got, got_sp), detail={"written": got})


def solidus_and_script_rules(ctx):
    """S12: a trailing solidus is written only for HTML void elements: on a start tag in foreign content the parser honours the
    self-closing flag, so `<svg><input />text</input>` (an SVG element that merely has a void element's name) re-reads with the
    element closed at once and its content outside.
    S13: the text of a script element can be represented only if it leaves the tokenizer in the plain script-data state at the
    end tag: a `<!--` followed by `<script` (script-data double-escaped state) makes the written `</script>` part of the text.  The
    `</` test alone does not see that."""
    r = ctx.r
    f, cfg = serialize_cfg(ctx)
    r.rule("S12", "the trailing solidus is written for HTML void elements only", floor=1)
    r.rule("S13", "script text that would enter the double-escaped state is reported", floor=1)
    tests = [t for t in ast.walk(f.node) if isinstance(t, ast.If) and "use_trailing_solidus" in norm(t.test)]
    if len(tests) != 1:
        r.idiom("S12", False, "solidus-html-void-only", f.where, "serialize: the trailing-solidus decision was not found")
    else:
        t = norm(tests[0].test)
        ok = "namespace" in t or "'EmptyTag'" in t
        # the namespace half of the test may be a nested `if` that holds everything the decision writes
        body_ = tests[0].body
        if not ok and len(body_) == 1 and isinstance(body_[0], ast.If) and not body_[0].orelse and "namespace" in norm(body_[0].test):
            ok = True
        r.idiom("S12", ok, "solidus-html-void-only", "%s:%d" % (REL, tests[0].lineno), "trailing-solidus test `%s` not recognised" % t,
                wrong=[("voidElements" in t and not ok,
                        "the trailing solidus is decided by the element *name* alone (`%s`): with use_trailing_solidus=True an SVG element named "
                        "input (`<svg><input>text</input></svg>`) is written `<input />text</input>`, which re-reads as a self-closed element "
                        "followed by text" % t)])
    arm = _text_arm(f)
    if arm is None:
        r.idiom("S13", False, "script-double-escape-reported", f.where, "serialize: the arm for character tokens was not found")
    else:
        src = " ".join(norm(st) for st in arm.body)
        looks = "<!--" in src or "<script" in src.replace("</script", "")
        r.idiom("S13", looks, "script-double-escape-reported", "%s:%d" % (REL, arm.lineno), "raw-text checks not recognised",
                wrong=[("find('</')" in src and not looks,
                        "raw text is only checked for `</`: the script text `<!--<script>` passes, is written as "
                        "`<script><!--<script></script>`, and a parser reading that is in the script-data double-escaped state when it meets "
                        "`</script>`, which therefore becomes text together with everything after it; no error is reported")])


def rawtext_rules(ctx):
    r = ctx.r
    ce = ctx.ce
    f, cfg = serialize_cfg(ctx)
    model = cmm(ctx)
    # which set does the serializer consult?  `name in <constant expression>` on the start and end side
    uses = [n for n in cfg.nodes if n.kind == "test" and isinstance(n.ast, ast.Compare) and norm(n.ast.left) == "name"
            and isinstance(n.ast.ops[0], ast.In) and "lements" in norm(n.ast.comparators[0]) and "void" not in norm(n.ast.comparators[0])]
    # ... recognised by what it guards, not by what the set is called: the `if` whose test holds the membership test switches one
    # boolean flag on (start-tag side) and off (end-tag side) with constants
    guarded = {}
    for iff in ast.walk(f.node):
        if not isinstance(iff, ast.If):
            continue
        cmps = [c for c in ast.walk(iff.test) if isinstance(c, ast.Compare) and norm(c.left) == "name" and len(c.ops) == 1 and isinstance(c.ops[0], ast.In)]
        for a in iff.body:
            if cmps and isinstance(a, ast.Assign) and len(a.targets) == 1 and isinstance(a.targets[0], ast.Name) and \
                    isinstance(a.value, ast.Constant) and isinstance(a.value.value, bool):
                guarded.setdefault(a.targets[0].id, {}).setdefault(a.value.value, []).extend(cmps)
    flag_tests = [c for flag, by in guarded.items() if True in by and False in by for cs in by.values() for c in cs]
    if flag_tests:
        ids = {id(c) for c in flag_tests}
        by_guard = [n for n in cfg.nodes if n.kind == "test" and any(id(x) in ids for x in ast.walk(n.ast))]
        picked = [u for u in uses if any(u is n for n in by_guard)]
        if len(picked) >= 2:
            uses = picked
    if len(uses) < 2:
        raise AnalysisError("serialize: raw-text decision `name in <element set>` not found")
    sets = []
    for u in uses:
        try:
            sets.append(frozenset(ce.eval(u.ast.comparators[0], f.module)))
        except Exception as e:
            raise AnalysisError("serialize: raw-text element set `%s` is not constant (%s)" % (norm(u.ast.comparators[0]), e))
    raw_set = sets[0]
    r.check("S2", all(x == raw_set for x in sets), "raw-set-same-on-both-sides", "%s:%d" % (REL, uses[0].lineno),
            "the start-tag side and the end-tag side of the raw-text decision use different element sets: %s" % [sorted(x) for x in sets])
    raw_states = {"rawtext", "scriptData"}
    for nm in sorted(raw_set):
        got = model.get(nm, set())
        uncond = bool(got) and all(c == "always" and s in raw_states for s, c in got)
        r.check("S2", uncond, "raw-set:%s" % nm, "constants.py",
                "the serializer writes the text of <%s> raw, but the parser switches to a raw-text tokenizer state for it only "
                "as %s: escaped text is doubly decoded / markup re-read" % (nm, sorted(got) or "never"),
                {"element": nm, "parser": sorted(got)}, detail={"element": nm, "parser": sorted(got)})
    for nm, got in sorted(model.items()):
        if any(s in raw_states and c == "always" for s, c in got):
            r.check("S2", nm in raw_set, "raw-missing:%s" % nm, "constants.py",
                    "the parser reads <%s> content as raw text but the serializer escapes it: '&lt;' comes back as the four "
                    "characters" % nm, {"element": nm})
        if any(s == "plaintext" for s, c in got):
            # cannot be closed or escaped faithfully: must be reported
            reported = any(isinstance(n.ast, ast.AST) and "plaintext" in norm(n.ast) for n in cfg.stmt_nodes())
            r.check("S2", reported, "plaintext:%s" % nm, f.where,
                    "the parser reads everything after <%s> as text, yet the serializer escapes its text and writes an end tag "
                    "without reporting an error: '<plaintext>a<b' is written as '<plaintext>a&lt;b</plaintext>' and read back "
                    "literally" % nm, {"element": nm})
    # (d) the decision must not depend on a formatting option: with the option the text of a raw-text element is
    #     escaped, which the parser reads back literally
    opt = [norm(n.ast) for n in cfg.nodes if n.kind == "test" and "escape_rcdata" in norm(n.ast)]
    r.check("S2", not opt, "raw-decision-option:escape_rcdata", "%s:%d" % (REL, uses[0].lineno),
            "with escape_rcdata=True the text of raw-text elements is escaped although the parser reads it raw: "
            "'<script>a<b</script>' is written as '<script>a&lt;b</script>' and read back as the text 'a&lt;b', no error reported",
            detail={"option_tests": opt})
    # (b) the decision as a function of the element's namespace: raw for HTML elements -- namespace html, None (trees built with
    #     namespaceHTMLElements=False) or absent (hand-made streams) -- and not for foreign elements
    from ..partition import MiniInterp, Opaque
    sw = [n for n in ast.walk(f.node) if isinstance(n, ast.If) and any(norm(s) == "in_cdata = True" for s in n.body)]
    ns_map = ce.const("constants.py", "namespaces")
    if len(sw) != 1:
        r.idiom("S2", False, "raw-decision-namespace", "%s:%d" % (REL, uses[0].lineno), "the statement that switches raw-text mode on was not found")
    else:
        def hook(node, local):
            if norm(node) == "self.escape_rcdata":
                return False
            return NotImplemented
        interp = MiniInterp(ce, f.module, expr_hook=hook)
        for label, nsv in (("svg", ns_map["svg"]), ("html", ns_map["html"]), ("None", None), ("absent", "<absent>")):
            tok = {"type": "StartTag", "name": "script", "data": {}}
            if nsv != "<absent>":
                tok["namespace"] = nsv
            try:
                raw = bool(interp.eval_guard(sw[0].test, {"token": tok, "name": "script", "type": "StartTag", "in_cdata": False, "self": Opaque("self")}))
            except AnalysisError as e:
                r.idiom("S2", False, "raw-decision-namespace[%s]" % label, "%s:%d" % (REL, sw[0].lineno), "raw-text switch not decidable (%s)" % str(e)[:60])
                continue
            if label == "svg":
                r.check("S2", not raw, "raw-decision-namespace", "%s:%d" % (REL, uses[0].lineno),
                        "the raw-text decision tests the bare element name: text of <svg><style> / <math><script> is written raw although "
                        "the parser tokenizes foreign content as ordinary data", detail={"namespace": label, "raw": raw})
            else:
                r.check("S2", raw, "raw-decision-namespace[%s]" % label, "%s:%d" % (REL, sw[0].lineno),
                        "the text of an HTML <script> whose token carries namespace %s (%s) is escaped instead of written raw: the parser "
                        "reads it back literally ('a < b' becomes 'a &lt; b'), no error reported" % (
                            label, "a tree built with namespaceHTMLElements=False" if label == "None" else "a token without a namespace key"
                            if label == "absent" else "the usual case"), detail={"namespace": label, "raw": raw})


def attr_key_rule(ctx):
    r = ctx.r
    f, cfg = serialize_cfg(ctx)
    loops = [n for n in cfg.nodes if n.kind == "loopiter" and "token['data'].items()" in norm(n.ast.iter)]
    if len(loops) != 1:
        raise AnalysisError("serialize: attribute loop not found")
    tgt = loops[0].ast.target
    if not (isinstance(tgt, ast.Tuple) and isinstance(tgt.elts[0], ast.Tuple) and len(tgt.elts[0].elts) == 2):
        raise AnalysisError("serialize: attribute loop does not unpack ((namespace, name), value)")
    ns_name = tgt.elts[0].elts[0]
    nsvar = ns_name.id if isinstance(ns_name, ast.Name) else None
    used = nsvar not in (None, "_") and any(
        isinstance(x, ast.Name) and x.id == nsvar and isinstance(x.ctx, ast.Load) for st in loops[0].ast.body for x in ast.walk(st))
    r.check("S7", used, "attribute-namespace", "%s:%d" % (REL, loops[0].lineno),
            "the namespace component of attribute keys is bound to `%s` and never used: xlink:href is written as href and is "
            "read back as a different attribute, with no error reported" % nsvar, detail={"namespace_var": nsvar})


def doctype_rule(ctx):
    r = ctx.r
    f, cfg = serialize_cfg(ctx)
    for ident in ("publicId", "systemId"):
        # interpolations of token[ident] into the doctype string
        sites = []
        for n in cfg.stmt_nodes():
            if n.kind == "stmt" and isinstance(n.ast, (ast.Assign, ast.AugAssign)) and "doctype" in norm(n.ast.targets[0] if isinstance(n.ast, ast.Assign) else n.ast.target):
                v = n.ast.value
                if isinstance(v, ast.BinOp) and isinstance(v.op, ast.Mod) and ("token['%s']" % ident) in norm(v.right):
                    sites.append((n, v))
        if not sites:
            continue            # written differently: the evaluated instances (doctype-ids-read-back, doctype-publicId-quote) decide
        for n, v in sites:
            fmt = ctx.ce.try_eval(v.left, f.module)
            # literal quote in the format, or a quote variable chosen by tests
            def tested(nd, lab, ident=ident):
                return nd.kind == "test" and ("token['%s'].find(" % ident) in norm(nd.ast)
            lit_quote = isinstance(fmt, str) and ('"%s"' in fmt or "'%s'" in fmt)
            ok = cfg.dominated_by(n, tested)
            r.check("S8", ok, "doctype-%s-quote" % ident, "%s:%d" % (REL, n.lineno),
                    "%s is written inside %s without being checked for that quote character: a quote in it ends the "
                    "identifier early and no error is reported" % (ident, "a literal double quote" if lit_quote else "quotes"),
                    detail={"identifier": ident, "checked": ok})


def doctype_evaluated(ctx):
    """S8 (evaluated): the doctype arm is run for representative identifiers and both settings of the quote_char option; the text
    it writes is read back the way a tokenizer does (identifier = up to the next occurrence of the delimiter that opened it) and must
    give the identifiers back, or an error must have been reported.  (A double quote inside the public identifier is the known
    finding of the structural S8 instance and is left out here.)"""
    import re as _re
    from ..partition import MiniInterp, Opaque
    r = ctx.r
    ce = ctx.ce
    f, cfg = serialize_cfg(ctx)
    arm = next((n for n in ast.walk(f.node) if isinstance(n, ast.If) and _type_test_values(n.test) == {"Doctype"}), None)
    if arm is None:
        r.idiom("S8", False, "doctype-ids-read-back", f.where, "serialize: the arm for doctype tokens was not found")
        return
    pub_dq = []
    for qc in ('"', "'"):
        bad = []
        undecided = None
        for pub in ("", "pub", "p'ub", 'p"ub'):
            for sysid in ("", "sys", 's"ys', "s'ys", "s\"y's"):
                out, errs = [], []

                def hook(node, local, qc=qc):
                    t = norm(node)
                    if t == "self.quote_char":
                        return qc
                    if isinstance(node, ast.Call) and t.startswith(("self.encodeStrict(", "self.encode(")) and len(node.args) == 1:
                        return ce.eval(node.args[0], f.module, local)
                    return NotImplemented

                def stmt_hook(st, o, interp):
                    if isinstance(st, ast.Expr) and isinstance(st.value, ast.Yield):
                        out.append(interp.eval_expr(st.value.value, o.env))
                        return False
                    if isinstance(st, ast.Expr) and isinstance(st.value, ast.Call) and norm(st.value.func) == "self.serializeError":
                        errs.append(norm(st.value))
                        return False
                    # the text may be collected in a local list and joined at the end
                    if isinstance(st, ast.Expr) and isinstance(st.value, ast.Call) and isinstance(st.value.func, ast.Attribute) and \
                            st.value.func.attr in ("append", "extend") and isinstance(st.value.func.value, ast.Name) and \
                            isinstance(o.env.get(st.value.func.value.id), list) and len(st.value.args) == 1 and not st.value.keywords:
                        getattr(o.env[st.value.func.value.id], st.value.func.attr)(interp.eval_expr(st.value.args[0], o.env))
                        return False
                    return NotImplemented
                try:
                    res_ = MiniInterp(ce, f.module, expr_hook=hook, stmt_hook=stmt_hook).run(
                        arm.body, {"type": "Doctype", "token": {"type": "Doctype", "name": "html", "publicId": pub, "systemId": sysid}, "self": Opaque("self")})
                    if getattr(res_, "effects", None):
                        raise AnalysisError("statement not interpreted: %s" % str(res_.effects[0])[:60])
                    if any(not isinstance(x, str) for x in out):
                        raise AnalysisError("a written piece is not a constant string")
                except Exception as e:      # noqa: BLE001
                    undecided = str(e)[:80]
                    break
                text = "".join(x for x in out if isinstance(x, str))
                m = _re.match(r"<!DOCTYPE html(?: PUBLIC (['\"])((?:(?!\1).)*)\1)?(?: SYSTEM)?(?: (['\"])((?:(?!\3).)*)\3)?>$", text, _re.S)
                got = (m.group(2) or "", m.group(4) or "") if m else None
                if got != (pub, sysid) and not errs:
                    if '"' in pub:
                        pub_dq.append((qc, pub, sysid, text))      # reported once, under the key of the known finding
                    else:
                        bad.append((pub, sysid, text))
            if undecided:
                break
        key = "doctype-ids-read-back[quote_char=%s]" % qc
        if undecided:
            r.idiom("S8", False, key, "%s:%d" % (REL, arm.lineno), "the doctype arm is not decidable (%s)" % undecided)
            continue
        r.check("S8", not bad, key, "%s:%d" % (REL, arm.lineno),
                "with quote_char=%r the doctype (public %r, system %r) is written as %s, which does not read back as these identifiers, and no "
                "error is reported (%d such cells)" % ((qc,) + (bad[0] if bad else ("", "", "")) + (len(bad),)), detail={"cells_wrong": len(bad)})


    r.check("S8", not pub_dq, "doctype-publicId-quote", "%s:%d" % (REL, arm.lineno),
            "publicId is written inside a literal double quote without being checked for that quote character: a quote in it ends the "
            "identifier early and no error is reported (%s)" % (pub_dq[0][3] if pub_dq else ""), detail={"cells_wrong": len(pub_dq)})


def comment_rule(ctx):
    r = ctx.r
    f, cfg = serialize_cfg(ctx)
    ys = [y for y in yields(cfg) if "<!--%s-->" in norm(y.ast)]
    if len(ys) != 1:
        raise AnalysisError("serialize: comment emission not found")
    def tested(nd, lab):
        return nd.kind == "test" and "find('--') >= 0" in norm(nd.ast)
    r.check("S9", cfg.dominated_by(ys[0], tested), "comment-dashes", "%s:%d" % (REL, ys[0].lineno),
            "a comment can be emitted without being checked for '--'", detail={"dominated": True})


def child_in_rawtext_rule(ctx):
    """S4: a tag written while inside a raw-text element would be read back as text; the "unexpected child" report is
    reachable for both kinds of tag token (StartTag and EmptyTag) whenever the flag is set."""
    r = ctx.r
    f, cfg = serialize_cfg(ctx)
    errs = [n for n in cfg.stmt_nodes() if any(norm(c.func) == "self.serializeError" and c.args and isinstance(c.args[0], ast.Constant)
                                               and "child" in str(c.args[0].value).lower() for c in node_calls(n))
            and type_arm(cfg, n, {"StartTag", "EmptyTag"})]
    if len(errs) != 1:
        r.idiom("S4", False, "child-in-rawtext", f.where, "serialize: the unexpected-child report was not found")
        return
    err = errs[0]
    type_tests = [n for n in cfg.nodes if n.kind == "test" and isinstance(n.ast, ast.Compare) and norm(n.ast.left) == "type"]
    for ty in ("StartTag", "EmptyTag"):
        blocked = None
        for t in type_tests:
            try:
                val = bool(ctx.ce.eval(t.ast, f.module, {"type": ty}))
            except Exception:       # noqa: BLE001 -- a test that is not a constant function of the token type

                continue
            # is err dominated by the edge (t, not val)?  then it cannot run for this token type
            if cfg.dominated_by(err, lambda n, lab, t=t, val=val: n is t and lab is (not val)):
                blocked = t
        r.check("S4", blocked is None, "child-in-rawtext::%s" % ty, "%s:%d" % (REL, err.ast.lineno),
                "the 'unexpected child element' report cannot run for %s tokens (it is guarded by `%s`): such a tag inside "
                "<script>/<style>/... is written as markup that is read back as text" % (ty, norm(blocked.ast) if blocked else ""),
                detail={"type": ty})
    # and it is not reachable outside the flag
    r.check("S4", cfg.dominated_by(err, lambda n, lab: n.kind == "test" and norm(n.ast) == "in_cdata" and lab is True),
            "child-in-rawtext::flag", "%s:%d" % (REL, err.ast.lineno), "the report is not guarded by the raw-text flag")


def thorough(ctx):
    from .. import selftest
    selftest.run(ctx, sys.modules[__name__])


def mutants():
    from ..selftest import TextMutant as T
    return [
        T("solidus-by-name-only", REL, "                if (name in voidElements and self.use_trailing_solidus and\n                        token.get(\"namespace\") in (None, namespaces[\"html\"])):", "                if name in voidElements and self.use_trailing_solidus:", "S12"),
        T("child-check-starttag-only", REL, "                elif in_cdata:\n                    self.serializeError(\"Unexpected child element of a CDATA element\")\n                for (_, attr_name), attr_value",
          "                elif in_cdata and type == \"StartTag\":\n                    self.serializeError(\"Unexpected child element of a CDATA element\")\n                for (_, attr_name), attr_value", "S4"),
        T("escape-only-lt", REL, "                    yield self.encode(escape(token[\"data\"]))", "                    yield self.encode(token[\"data\"].replace(\"<\", \"&lt;\"))", "S1"),
        T("leading-lf-not-doubled", REL, "                if first_in_pre and token[\"data\"].startswith(\"\\n\"):", "                if False:", "S11"),
        T("leading-lf-title-too", REL, "                             name in (\"pre\", \"textarea\", \"listing\") and\n", "                             name in (\"pre\", \"textarea\", \"listing\", \"title\") and\n", "S11"),
        T("leading-lf-any-element", REL, "                             name in (\"pre\", \"textarea\", \"listing\") and\n", "", "S11"),
        T("leading-lf-foreign-namesake", REL, " and\n                             token.get(\"namespace\") in (None, namespaces[\"html\"]))", ")", "S11"),
        T("leading-lf-no-textarea", REL, "name in (\"pre\", \"textarea\", \"listing\")", "name in (\"pre\", \"listing\")", "S11"),
        T("no-escape", REL, "                    yield self.encode(escape(token[\"data\"]))", "                    yield self.encode(token[\"data\"])", "S1"),
        T("raw-add-title", "constants.py", "rcdataElements = frozenset([\n    'style',", "rcdataElements = frozenset([\n    'title',\n    'style',", "S2"),
        T("raw-drop-xmp", "constants.py", "    'script',\n    'xmp',\n    'iframe',", "    'script',\n    'iframe',", "S2"),
        T("no-ltslash-check", REL, "                    if in_cdata and token[\"data\"].find(\"</\") >= 0:\n                        self.serializeError(\"Unexpected </ in CDATA\")\n", "", "S3"),
        T("systemid-unchecked", REL, "                    if token[\"systemId\"].find('\"') >= 0:\n                        if token[\"systemId\"].find(\"'\") >= 0:\n                            self.serializeError(\"System identifier contains both single and double quote characters\")\n                        quote_char = \"'\"\n                    else:\n                        quote_char = '\"'\n",
          "                    quote_char = '\"'\n", "S8"),
        T("comment-unchecked", REL, "                if data.find(\"--\") >= 0:\n                    self.serializeError(\"Comment contains --\")\n", "", "S9"),
        T("amp-not-escaped", REL, "                        v = v.replace(\"&\", \"&amp;\")\n", "", "Q4"),
        T("quote-not-escaped", REL, "                            if quote_char == \"'\":\n                                v = v.replace(\"'\", \"&#39;\")\n                            else:\n                                v = v.replace('\"', \"&quot;\")",
          "                            if quote_char == \"'\":\n                                v = v.replace(\"'\", \"&#39;\")", "Q4"),
        T("spec-class-no-gt", REL, "_quoteAttributeSpecChars = \"\".join(spaceCharacters) + \"\\\"'=<>`\"", "_quoteAttributeSpecChars = \"\".join(spaceCharacters) + \"\\\"'=<`\"", "Q2"),
        T("empty-unquoted", REL, "if self.quote_attr_values == \"always\" or len(v) == 0:", "if self.quote_attr_values == \"always\":", "Q2"),
    ]


def preserving():
    from ..selftest import TextMutant as T
    return [
        T("escape-via-local", REL, "                    yield self.encode(escape(token[\"data\"]))", "                    yield self.encode(escape(token['data']))", None),
        T("escape-local-variable", REL, "                    yield self.encode(escape(token[\"data\"]))", "                    text = escape(token[\"data\"])\n                    yield self.encode(text)", None),
        T("escape-with-entities", REL, "                    yield self.encode(escape(token[\"data\"]))", "                    yield self.encode(escape(token[\"data\"], {\"\\r\": \"&#13;\"}))", None),
        T("text-arms-split", REL, "                if type == \"SpaceCharacters\" or in_cdata:\n                    if in_cdata and token[\"data\"].find(\"</\") >= 0:\n                        self.serializeError(\"Unexpected </ in CDATA\")\n                    yield self.encode(token[\"data\"])\n",
          "                if in_cdata:\n                    if token[\"data\"].find(\"</\") >= 0:\n                        self.serializeError(\"Unexpected </ in CDATA\")\n                    yield self.encode(token[\"data\"])\n                elif type == \"SpaceCharacters\":\n                    yield self.encode(token[\"data\"])\n", None),
    ]
