"""C14 -- every character reference decodes to the standard's replacement.

R14.1 the entities table (2231 names) equals the independent copy in the Python standard library
R14.2 the numeric replacement table equals the standard library's copy
R14.3 numeric references: table hit first; U+FFFD exactly for surrogates and values > 0x10FFFF; otherwise the code
      point; radix and digit set agree (decimal <-> digits, hex <-> hexDigits)
R14.4 the attribute-value exception applies exactly to semicolon-less matches followed by [A-Za-z0-9=] in attributes
R14.5 reverse map for encoded output: every emitted named reference decodes back to the same character
R14.6 character references are consumed exactly in data, RCDATA and the three attribute-value states, with the
      standard's additional allowed character
R14.7 the "not a character reference" pre-check: white space, <, &, EOF and the additional allowed character
"""
from __future__ import annotations

import ast
import sys

from ..repo import AnalysisError, norm, walk_no_nested
from ..consteval import NotConstant
from ..partition import ATOMS, MiniInterp, Opaque, atom_name, int_boundaries
from .c02 import tokmodel, short

LEVEL = "other"
TECHNIQUE = ("table equality against independent standard-library copies; branch partition of the numeric-reference and "
             "attribute-exception guards over boundary values / character atoms; constant folding of the reverse-map loop; "
             "context inventory from the tokenizer model; source evaluation (sa/classeval.py) of consumeNumberEntity, consumeEntity (entity trie modelled over constants.entities) and the codec error handler on character streams / stand-in exceptions against the standard's algorithms")
CLAIM = ('The named and numeric replacement tables equal independent copies (html.entities.html5, '
         "html._invalid_charrefs); the numeric decoder's guard chain yields the table value, U+FFFD or the "
         'code point for every integer (decided at all interval boundaries), with matching radix and digit '
         "sets; the attribute exception and the not-a-reference pre-check have exactly the standard's "
         'character sets; references are consumed in exactly the five contexts with the right additional '
         'allowed character; every named reference the serializer can emit decodes back to its character. The '
         "trie's longest_prefix tries the argument and then every shorter prefix in decreasing length. consumeNumberEntity, consumeEntity and the codec error handler are also run as a whole from their source on character streams / stand-in exceptions: the resulting text is the standard's for every sampled name x follower x context, leading zeros are not significant, every unencodable character (astral neighbours, surrogate pairs, legacy names) becomes exactly one reference that decodes back.")
NOT_DECIDED = "the entity trie's has_keys_with_prefix search (bisect on run-time strings) and the look-ahead loop of consumeEntity."
MODULES = ["_tokenizer.py", "constants.py", "serializer.py", "_trie/py.py", "_trie/_base.py"]
REL = "_tokenizer.py"


def run(ctx):
    r = ctx.r
    ce, repo = ctx.ce, ctx.repo
    r.explanation = (
        "Tables are evaluated from the source and compared with the interpreter's own independent copies; the guard chains of "
        "consumeNumberEntity / consumeEntity are decided by branch partition; serializer._encode_entity_map is constant-folded "
        "from its import-time loop; the contexts of character-reference consumption come from the tokenizer model.")
    r.not_decided = NOT_DECIDED
    r.rule("R14.1", "constants.entities equals html.entities.html5", floor=2231)
    r.rule("R14.2", "constants.replacementCharacters equals html._invalid_charrefs", floor=34)
    r.rule("R14.3", "numeric references decode to table value / U+FFFD / code point at every interval boundary; radix agrees", floor=100)
    r.rule("R14.4", "attribute-value exception: exactly semicolon-less match + [A-Za-z0-9=] + attribute context", floor=500)
    r.rule("R14.5", "every named reference the encoder emits decodes back to the same character; form is &name; or &#x..;", floor=1000)
    r.rule("R14.6", "character references are consumed in exactly data, RCDATA and the three attribute-value states", floor=5)
    r.rule("R14.8", "the trie's longest_prefix tries the argument and then every shorter prefix in decreasing length", floor=8)
    r.rule("R14.7", "not-a-reference pre-check: white space, <, &, EOF, additional allowed character", floor=500)

    import html.entities
    import html as _html
    std = html.entities.html5
    ents = ce.const("constants.py", "entities")
    where = ce.provenance(repo.module("constants.py"), "entities")
    for k in sorted(set(std) | set(ents)):
        r.check("R14.1", k in std and k in ents and std[k] == ents[k], "entities[%s]" % k, where,
                "named reference %r: html5lib has %r, the standard has %r" % (k, ents.get(k), std.get(k)))
    inv = getattr(_html, "_invalid_charrefs", None)
    if not isinstance(inv, dict) or len(inv) < 30:
        raise AnalysisError("the interpreter's html._invalid_charrefs table is unavailable")
    rep = ce.const("constants.py", "replacementCharacters")
    where = ce.provenance(repo.module("constants.py"), "replacementCharacters")
    for k in sorted(set(inv) | set(rep)):
        r.check("R14.2", rep.get(k) == inv.get(k), "replacement[0x%X]" % k, where,
                "numeric reference %d: html5lib maps to %r, the standard to %r" % (k, rep.get(k), inv.get(k)))

    numeric(ctx, rep)
    ev_named = named_evaluated(ctx)
    if ev_named:
        # the per-guard instances below are extra when the function could be run as a whole: their count is not a floor any more
        for rid_ in ("R14.4", "R14.7"):
            if rid_ in ctx.r.rules:
                ctx.r.rules[rid_]["floor"] = 1 if rid_ == "R14.4" else 0      # the evaluation's own instance is filed under R14.4
    try:
        named(ctx, ev_named)
    except AnalysisError:
        if not ev_named:
            raise
        ctx.r.note("C14: the shape of consumeEntity is not the recognised one; its behaviour was decided by running it (R14.4 evaluated::)")
    reverse_map(ctx, ents)
    contexts(ctx)
    trie_rules(ctx)


def numeric(ctx, rep):
    r, ce = ctx.r, ctx.ce
    f = ctx.repo.func(REL, "HTMLTokenizer.consumeNumberEntity")
    mod = f.module
    body = f.node.body
    chain = [s for s in body if isinstance(s, ast.If) and "replacementCharacters" in norm(s.test)]
    if len(chain) != 1:
        raise AnalysisError("consumeNumberEntity: replacement chain not found")
    chain = chain[0]
    bounds = int_boundaries([chain], extra=list(rep) + [0, 0x10FFFF, 0x110000, 0xD7FF, 0xD800, 0xDFFF, 0xE000, 65, 0x1F600,
                                                        0x7FFFFFFF, 10 ** 12])
    interp = MiniInterp(ce, mod)
    for n in bounds:
        res = interp.run([chain], {"charAsInt": n, "self": Opaque("self")})
        got = res.env.get("char")
        if n in rep:
            exp = rep[n]
        elif 0xD800 <= n <= 0xDFFF or n > 0x10FFFF:
            exp = "�"
        else:
            exp = chr(n)
        r.check("R14.3", got == exp, "numeric[0x%X]" % n, "%s:%d" % (REL, chain.lineno),
                "&#%d; decodes to %r; the standard prescribes %r" % (n, got, exp), {"value": n},
                detail={"value": n, "char": repr(exp)})
    # radix / digit-set agreement
    pre = []
    for s in body:
        if isinstance(s, ast.Expr) and isinstance(s.value, ast.Constant):
            continue
        if isinstance(s, (ast.Assign, ast.If)) and s is not chain and not any(isinstance(x, ast.Call) and "stream" in norm(x) for x in ast.walk(s)):
            pre.append(s)
        else:
            break
    digits, hexd = ce.const("constants.py", "digits"), ce.const("constants.py", "hexDigits")
    for is_hex, (eset, eradix) in ((True, (hexd, 16)), (False, (digits, 10))):
        res = interp.run(pre, {f.params()[1]: is_hex, "self": Opaque("self")})
        ok = res.env.get("allowed") == eset and res.env.get("radix") == eradix
        r.check("R14.3", ok, "radix[hex=%s]" % is_hex, f.where,
                "hex=%s: digits are read from %s with radix %s" % (is_hex, sorted(res.env.get("allowed") or []), res.env.get("radix")),
                detail={"hex": is_hex, "radix": eradix})
    src = " ".join(norm(f.node).split())
    r.idiom("R14.3", "while c in allowed and c is not EOF:" in src and "charStack.append(c)" in src,
            "digit-loop", f.where, "the digit loop no longer collects the characters that are in `allowed`")
    # the conversion: the statements between the digit loop and the replacement chain, evaluated for digit strings of every
    # significant length 1..9 (with and without leading zeros) and for one of 5000 digits, in both radixes; the value must
    # be the number written, or any out-of-range value when the number is beyond U+10FFFF
    loops = [s for s in body if isinstance(s, ast.While)]
    conv = body[body.index(loops[0]) + 1:body.index(chain)] if loops and body.index(loops[0]) < body.index(chain) else []
    conv = [s for s in conv if not (isinstance(s, ast.Expr) and isinstance(s.value, ast.Constant))]
    scrut = "charAsInt"
    if not conv:
        r.idiom("R14.3", False, "conversion", f.where, "the statements converting the digits were not found")
    else:
        for radix, alphabet in ((10, "19"), (16, "1f")):
            cases = []
            for nsig in range(1, 10):
                for lead in (0, 3):
                    for d in alphabet:
                        cases.append("0" * lead + d * nsig)
            cases += ["0", "000", "1" * 5000, "0" * 5000 + "41", "0" * 4997 + "65"]
            for digs in cases:
                sig = digs.lstrip("0")
                true = int(sig or "0", radix) if len(sig) <= 12 else 10 ** 13
                key = "conversion[radix=%d,%s]" % (radix, digs if len(digs) <= 14 else "%s..x%d" % (digs[:3], len(digs)))
                res = interp.run(conv, {"charStack": list(digs), "radix": radix, "self": Opaque("self")})
                got = res.env.get(scrut)
                if isinstance(got, Opaque) or got is None:
                    why = ""
                    for st in conv:
                        for a in ast.walk(st):
                            if isinstance(a, ast.Assign) and norm(a.targets[0]) == scrut:
                                try:
                                    ce.eval(a.value, mod, dict(res.env))
                                except NotConstant as e:
                                    why = str(e)
                    r.idiom("R14.3", False, key, f.where, "the conversion is not evaluable for %d digits (%s)" % (len(digs), why[:60]),
                            wrong=[("Exceeds the limit" in why, "a numeric reference of %d digits makes the conversion raise ValueError (%s): "
                                    "parse() fails instead of producing U+FFFD / the character" % (len(digs), why[:50]))])
                    continue
                ok = got == true or (true > 0x10FFFF and isinstance(got, int) and got > 0x10FFFF)
                shown = got if not isinstance(got, int) or got < 10 ** 13 else "an integer above 10**13"
                r.check("R14.3", ok, key, f.where,
                        "the digits %s (radix %d) are converted to %r; the number written is %d" % (key, radix, shown, true),
                        {"digits": len(digs), "radix": radix}, detail={"digits": digs[:12], "value": shown if isinstance(shown, int) else None})
    # the whole function, run from its source on a character stream (sa/classeval.py): digits with and without leading zeros
    # of every significant length, a terminator that is `;`, another character, or the end of input
    from ..classeval import ClassEval
    cls_ = ctx.repo.cls(REL, "HTMLTokenizer")
    n_run = 0
    try:
        for radix, alphabet, is_hex in ((10, "19", False), (16, "1fA", True)):
            for nsig in (1, 2, 4, 6, 7, 8, 9, 12):
                for lead in (0, 1, 8, 40):
                    for d in alphabet:
                        for tail in (";", "z", ""):
                            digs = "0" * lead + d * nsig
                            evl = ClassEval(ce, mod, cls_, {})
                            evl.stream = list(digs + tail + "rest")  if tail else list(digs)
                            got = evl.call("consumeNumberEntity", [is_hex])
                            n = int(d * nsig, radix)
                            exp = rep[n] if n in rep else ("\ufffd" if (0xD800 <= n <= 0xDFFF or n > 0x10FFFF) else chr(n))
                            left = "".join(evl.stream)
                            exp_left = ("rest" if tail == ";" else (tail + "rest" if tail else ""))
                            n_run += 1
                            if got != exp or left != exp_left:
                                r.bad("R14.3", "evaluated[radix=%d,%s%s]" % (radix, digs if len(digs) < 16 else "%s..x%d" % (digs[:4], len(digs)), tail),
                                      f.where, "consumeNumberEntity on `%s%s`: returns %r and leaves %r unread; the standard gives %r and leaves %r "
                                      "(leading zeros are not significant, the number has %d significant digits)" % (
                                          digs if len(digs) < 24 else digs[:6] + "...", tail, got, left[:8], exp, exp_left[:8], nsig),
                                      {"digits": digs[:16], "radix": radix})
        r.ok("R14.3", "evaluated::numeric-references", f.where, detail={"streams_run": n_run})
    except AnalysisError as e:
        r.note("C14: consumeNumberEntity not evaluable as a whole (%s); its parts are decided separately" % str(e)[:100])
    r.check("R14.3", hexd == frozenset("0123456789abcdefABCDEF") and digits == frozenset("0123456789"), "digit-sets",
            "constants.py", "digits / hexDigits are not the ASCII (hex) digits")
    # semicolon handling: consumed if present, otherwise given back
    r.idiom("R14.3", "if c != ';':" in src and "self.stream.unget(c)" in src, "semicolon", f.where,
            "the character after the digits is not given back when it is not ';'", wrong=[("unget" not in src, None)])
    # caller: hex iff x/X, first digit class
    g = ctx.repo.func(REL, "HTMLTokenizer.consumeEntity")
    tests = [n for n in ast.walk(g.node) if isinstance(n, ast.If) and "hexDigits" in norm(n.test) and "digits" in norm(n.test)]
    if len(tests) != 1:
        raise AnalysisError("consumeEntity: first-digit test not found")
    gi = MiniInterp(ce, g.module)
    hexvar = "hex"
    for n in ast.walk(g.node):
        if isinstance(n, ast.If) and "'x'" in norm(n.test) and "'X'" in norm(n.test):
            for st in n.body:
                if isinstance(st, ast.Assign) and isinstance(st.targets[0], ast.Name) and norm(st.value) == "True":
                    hexvar = st.targets[0].id
    for hexv in (True, False):
        for a in ATOMS:
            env = {hexvar: hexv, "charStack": [a], "self": Opaque("self")}
            got = gi.eval_guard(tests[0].test, env)
            exp = isinstance(a, str) and ((a in hexd) if hexv else (a in digits))
            r.check("R14.3", got == exp, "first-digit[hex=%s,%s]" % (hexv, atom_name(a)), "%s:%d" % (REL, tests[0].lineno),
                    "numeric reference (hex=%s) %s %s as first digit" % (hexv, "accepts" if got else "rejects", atom_name(a)))
    xs = [n for n in ast.walk(g.node) if isinstance(n, ast.If) and norm(n.test) in (
        "charStack[-1] in ('x', 'X')", "charStack[-1] in ('X', 'x')", "charStack[-1] == 'x' or charStack[-1] == 'X'",
        "charStack[-1] == 'X' or charStack[-1] == 'x'")]
    r.idiom("R14.3", len(xs) == 1 and any(isinstance(s, ast.Assign) and norm(s.value) == "True" for s in xs[0].body), "hex-marker", g.where,
            "hexadecimal references are not introduced by exactly x / X")


def named_evaluated(ctx) -> bool:
    """R14.4 / R14.7 by running consumeEntity from its source (sa/classeval.py) on a character stream, with a model of the
    entity trie built from constants.entities: for names with and without `;`, names that are prefixes of other names, each
    followed by a letter, a digit, `=`, `;`, white space, `<`, `&`, a quote, a non-ASCII letter or digit and the end of input, in
    text and in an attribute value -- the text that results (what is emitted or appended to the attribute value, plus what is
    left unread) is what the standard's "consume a character reference" produces."""
    from ..classeval import ClassEval, Record
    r, ce = ctx.r, ctx.ce
    g = ctx.repo.func(REL, "HTMLTokenizer.consumeEntity")
    mod = g.module
    cls_ = ctx.repo.cls(REL, "HTMLTokenizer")
    ents = ce.const("constants.py", "entities")
    tt = ce.const("constants.py", "tokenTypes")
    keys = sorted(ents)
    prefixes = set()
    for k in keys:
        for i in range(1, len(k) + 1):
            prefixes.add(k[:i])

    def longest(p):
        for i in range(len(p), 0, -1):
            if p[:i] in ents:
                return p[:i]
        raise KeyError(p)
    trie = Record(has_keys_with_prefix=lambda p: p in prefixes, longest_prefix=longest, __contains__=lambda k: k in ents)
    params = g.params()[1:]
    if sorted(params) != ["allowedChar", "fromAttribute"]:
        return False
    names = ["amp;", "amp", "not", "notin;", "copy", "para", "lt", "zzz", "no", "Eacute", "eacute;", "notit;"]
    followers = ["i", "1", "=", ";", " ", "<", "&", '"', "\u00e9", "\u0661", "", "t;"]
    space = ce.const("constants.py", "spaceCharacters")
    n_run = 0
    try:
        for name in names:
            for fol in followers:
                for from_attr, allowed in ((False, None), (True, '"'), (True, ">")):
                    text = name + fol
                    evl = ClassEval(ce, mod, cls_, {"currentToken": {"type": tt["StartTag"], "name": "a", "data": [["title", "v:"]]}}, repo=ctx.repo,
                                    globals_override={"entitiesTrie": trie})
                    evl.stream = list(text)
                    evl.call("consumeEntity", [], {"allowedChar": allowed, "fromAttribute": from_attr})
                    if from_attr:
                        out = evl.attrs["currentToken"]["data"][-1][1][2:]
                    else:
                        out = "".join(t["data"] for t in evl.emitted if isinstance(t, dict) and t.get("type") in (tt["Characters"], tt["SpaceCharacters"]))
                    got = out + "".join(evl.stream)
                    # the standard
                    if text == "" or text[0] in space or text[0] in "<&" or (allowed is not None and text[0] == allowed):
                        exp = "&" + text
                    else:
                        m = next((text[:i] for i in range(len(text), 0, -1) if text[:i] in ents), None)
                        if m is None:
                            exp = "&" + text
                        else:
                            nxt = text[len(m):len(m) + 1]
                            if not m.endswith(";") and from_attr and nxt != "" and (nxt in "=" or (nxt.isascii() and nxt.isalnum())):
                                exp = "&" + text
                            else:
                                exp = ents[m] + text[len(m):]
                    n_run += 1
                    if got != exp:
                        r.bad("R14.4", "evaluated[&%s,%s]" % (text, "attribute value ending in %s" % allowed if from_attr else "text"), g.where,
                              "consumeEntity on `&%s` in %s: the resulting text is %r; the standard's is %r (a name without `;` stays text in an "
                              "attribute value only when the character right after the *matched name* is an ASCII letter, digit or `=`)" % (
                                  text, "an attribute value" if from_attr else "text", got, exp), {"input": text, "attribute": from_attr})
    except AnalysisError as e:
        r.note("C14: consumeEntity not evaluable as a whole (%s); its tests are decided separately" % str(e)[:120])
        return False
    r.ok("R14.4", "evaluated::named-references", g.where, detail={"streams_run": n_run})
    return True


def named(ctx, evaluated=False):
    r, ce = ctx.r, ctx.ce
    g = ctx.repo.func(REL, "HTMLTokenizer.consumeEntity")
    gi = MiniInterp(ce, g.module)
    letters, digits = ce.const("constants.py", "asciiLetters"), ce.const("constants.py", "digits")
    space = ce.const("constants.py", "spaceCharacters")
    # R14.4
    tests = [n for n in ast.walk(g.node) if isinstance(n, ast.If) and "fromAttribute" in norm(n.test) and "entityName" in norm(n.test)]
    if len(tests) != 1:
        raise AnalysisError("consumeEntity: attribute-exception test not found")
    t = tests[0]
    # the statements of the block that contains the test, up to it (local aliases such as `nextChar = ...` are evaluated)
    block = next((n.body for n in ast.walk(g.node) if isinstance(n, ast.If) and t in n.body), [t])
    prelude = [s for s in block[:block.index(t)] if isinstance(s, ast.Assign)]
    for name in ("not;", "not"):
        for from_attr in (True, False):
            for a in ATOMS:
              for last in ((";", "x") if name == "not" and a in ("i", "1", "=", ";", " ", None) else (None,)):
                # the characters consumed: the match, the character after it, and (possibly) one more that stopped the look-ahead
                stack = list(name) + [a] + ([last] if last is not None else [])
                env = {"entityName": name, "fromAttribute": from_attr, "charStack": stack, "entityLength": len(name), "self": Opaque("self")}
                for s_ in prelude:
                    try:
                        env[norm(s_.targets[0])] = gi.eval_expr(s_.value, env)
                    except Exception:       # noqa: BLE001 -- not a pure alias
                        pass
                got = gi.eval_guard(t.test, env)
                exp = (not name.endswith(";")) and from_attr and isinstance(a, str) and (a in letters or a in digits or a == "=")
                if last is not None:
                    r.check("R14.4", got == exp, "attr-exception[%s,attr=%s,%s,then %s]" % (name, from_attr, atom_name(a), last),
                            "%s:%d" % (REL, t.lineno),
                            "match %r in an attribute value (%s), followed by %s and then %r: the reference is %s; the standard looks at the "
                            "character right after the match and says %s (&noti; in an attribute must stay text)" % (
                                name, from_attr, atom_name(a), last, "left as text" if got else "decoded", "left as text" if exp else "decoded"))
                    continue
                r.check("R14.4", got == exp, "attr-exception[%s,attr=%s,%s]" % (name, from_attr, atom_name(a)),
                        "%s:%d" % (REL, t.lineno),
                        "match %r, attribute context %s, next character %s: reference is %s; the standard says %s" % (
                            name, from_attr, atom_name(a), "left as text" if got else "decoded", "left as text" if exp else "decoded"))
    # in the exception arm the text is left undecoded; in the other arm the table value is used
    body_src = " ".join(norm(ast.Module(body=t.body, type_ignores=[])).split())
    else_src = " ".join(norm(ast.Module(body=t.orelse, type_ignores=[])).split())
    r.idiom("R14.4", evaluated or "output = '&' + ''.join(charStack)" in body_src and "output = entities[entityName]" in else_src,
            "attr-exception-arms", "%s:%d" % (REL, t.lineno), "the arms of the attribute exception no longer keep / decode the reference")
    # R14.7
    pre = [n for n in g.node.body if isinstance(n, ast.If) and "allowedChar" in norm(n.test)]
    if len(pre) != 1:
        # the pre-check without an additional allowed character: found by its shape (first statement after the first read that
        # ungets the character); it cannot honour the quote / `>` that ends the attribute value
        cand = [n for n in g.node.body if isinstance(n, ast.If) and any("unget" in norm(s) for s in n.body) and "charStack[0]" in norm(n.test)]
        r.idiom("R14.7", evaluated, "pre-check", g.where, "consumeEntity: the not-a-reference pre-check was not found",
                wrong=[(len(cand) == 1 and "allowedChar" not in g.params(),
                        "consumeEntity has no additional allowed character any more: in an attribute value `&` directly before the closing "
                        "quote (title=\"AT&\") or before `>` (title=a&>) is no longer \"not a character reference\": a parse error is "
                        "recorded for conforming input (strict mode raises) and the look-ahead runs past the delimiter")])
        return
    # local aliases of the first character read (`c = self.stream.char(); charStack = [c]`)
    first_aliases = [norm(st.targets[0]) for st in g.node.body[:g.node.body.index(pre[0])]
                     if isinstance(st, ast.Assign) and isinstance(st.targets[0], ast.Name) and norm(st.value) == "self.stream.char()"]
    for allowed in (None, '"', "'", ">"):
        for a in ATOMS:
            env = {"charStack": [a], "allowedChar": allowed, "self": Opaque("self")}
            env.update({al: a for al in first_aliases})
            got = gi.eval_guard(pre[0].test, env)
            exp = a is None or a in space or a in ("<", "&") or (allowed is not None and a == allowed)
            r.check("R14.7", got == exp, "pre-check[allowed=%s,%s]" % (allowed, atom_name(a)), "%s:%d" % (REL, pre[0].lineno),
                    "after '&' (additional allowed character %r) the character %s is %s as 'not a character reference'"
                    % (allowed, atom_name(a), "treated" if got else "not treated"))
    ungets = ["self.stream.unget(charStack[0])"] + ["self.stream.unget(%s)" % al for al in first_aliases]
    pb = [norm(s) for s in pre[0].body]
    r.idiom("R14.7", evaluated or len(pb) == 1 and pb[0] in ungets, "pre-check-unget",
            "%s:%d" % (REL, pre[0].lineno), "the character that is not part of a reference is not given back",
            wrong=[(not any("unget" in x for x in pb), None)])


def _error_handler_evaluated(ctx, f, mod, emap, ents) -> bool:
    """R14.5, the codec error handler run as a whole from its source (sa/classeval.py) on stand-in UnicodeEncodeError objects:
    every unencodable character of the range -- BMP, astral, written as a surrogate pair, several in a row, with and without a
    named reference, with a legacy (semicolon-less) name -- comes out as exactly one reference that the tokenizer decodes back to
    it, and the handler resumes at exc.end.  Tables derived from the reverse map at module level are folded first."""
    from ..classeval import ClassEval, Record
    r, ce = ctx.r, ctx.ce
    over = {"_encode_entity_map": emap, "_is_ucs4": True}
    seen_loop = False
    for st in mod.tree.body:
        if isinstance(st, ast.For) and "entities.items()" in norm(st.iter):
            seen_loop = True
        elif seen_loop and isinstance(st, ast.Assign) and len(st.targets) == 1 and isinstance(st.targets[0], ast.Name) and \
                any(isinstance(x, ast.Name) and x.id in over for x in ast.walk(st.value)):
            try:
                over[st.targets[0].id] = ce.eval(st.value, mod, dict(over))
            except NotConstant:
                return False
    legacy = sorted(cp for cp, nm in emap.items() if not nm.endswith(";"))
    named = sorted(cp for cp, nm in emap.items() if nm.endswith(";") and cp < 0x10000)
    astral = sorted(cp for cp in emap if cp > 0xFFFF)
    if not (legacy and named and astral):
        return False
    A, B = chr(astral[0]), chr(astral[1])
    pairA = chr(0xD800 + ((astral[0] - 0x10000) >> 10)) + chr(0xDC00 + ((astral[0] - 0x10000) & 0x3FF))
    L, N, U = chr(legacy[0]), chr(named[0]), "\u4e00"
    cases = [("x" + N + "y", 1, 2), ("x" + L + "b", 1, 2), (L + N + U, 0, 3), (U, 0, 1), (A, 0, 1), (A + B + N, 0, 3), (A + N, 0, 2), (N + A + L, 0, 3),
             ("q" + pairA + N, 1, 4), (pairA + pairA, 0, 4), ("\U0010fffd" + U, 0, 2), (L + ";", 0, 1), (L + "b", 0, 1)]

    def units(text):
        """the characters a reader sees: a surrogate pair is one character"""
        out, i = [], 0
        while i < len(text):
            if i + 1 < len(text) and 0xD800 <= ord(text[i]) <= 0xDBFF and 0xDC00 <= ord(text[i + 1]) <= 0xDFFF:
                out.append(0x10000 + ((ord(text[i]) - 0xD800) << 10) + (ord(text[i + 1]) - 0xDC00))
                i += 2
            else:
                out.append(ord(text[i]))
                i += 1
        return out
    import re as _re
    ref = _re.compile(r"&(#x[0-9a-fA-F]+|[A-Za-z][A-Za-z0-9]*);")
    bad = []
    try:
        for obj, start, end in cases:
            evl = ClassEval(ce, mod, None, {}, repo=ctx.repo, globals_override=over)
            exc = Record(isa=("UnicodeEncodeError",), object=obj, start=start, end=end, encoding="ascii", reason="r")
            got = evl.callf(mod, f.name, [exc])
            want = units(obj[start:end])
            problem = None
            if not (isinstance(got, tuple) and len(got) == 2 and isinstance(got[0], str)):
                problem = "returns %r" % (got,)
            elif got[1] != end:
                problem = "resumes at %r, not at exc.end" % (got[1],)
            else:
                refs = ref.findall(got[0])
                if "".join("&%s;" % x for x in refs) != got[0]:
                    problem = "writes %r, which is not a sequence of complete references" % got[0]
                else:
                    dec = [int(x[2:], 16) if x.startswith("#x") else (ord(ents[x + ";"]) if len(ents.get(x + ";", "")) == 1 else None) for x in refs]
                    if dec != want:
                        problem = "writes %r, which decodes to %s, for the characters %s" % (
                            got[0], ["U+%04X" % d if d is not None else "?" for d in dec], ["U+%04X" % w for w in want])
            if problem:
                bad.append((obj[start:end], problem))
    except AnalysisError:
        return False
    r.check("R14.5", not bad, "evaluated::error-handler", f.where,
            "htmlentityreplace_errors: %s" % "; ".join("for %r it %s" % b for b in bad[:3]), detail={"cases": len(cases)})
    return True


def reverse_map(ctx, ents):
    r, ce = ctx.r, ctx.ce
    mod = ctx.repo.module("serializer.py")
    loop = None
    for st in mod.tree.body:
        if isinstance(st, ast.For) and "entities.items()" in norm(st.iter):
            loop = st
    if loop is None or not (isinstance(loop.target, ast.Tuple) and len(loop.target.elts) == 2):
        raise AnalysisError("serializer: the _encode_entity_map loop was not found")
    kname, vname = [e.id for e in loop.target.elts]
    emap = {}
    interp = MiniInterp(ce, mod)
    base_env = {"_is_ucs4": True}
    for k, v in ents.items():
        env = dict(base_env)
        env.update({kname: k, vname: v, "_encode_entity_map": emap})
        res = interp.run(loop.body, env)
        for e in res.effects:
            n = e.node
            if isinstance(n, ast.Assign) and norm(n.targets[0]).startswith("_encode_entity_map["):
                key = ce.eval(n.targets[0].slice, mod, res.env)
                val = ce.eval(n.value, mod, res.env)
                emap = dict(emap)
                emap[key] = val
            else:
                raise AnalysisError("serializer: unexpected statement in the reverse-map loop: %s" % norm(n)[:60])
    if len(emap) < 1000:
        raise AnalysisError("reverse map has only %d entries" % len(emap))
    for cp, name in sorted(emap.items()):
        full = name if name.endswith(";") else name + ";"
        ok = ents.get(full) == chr(cp)
        r.check("R14.5", ok, "reverse[U+%04X]" % cp, "serializer.py:%d" % loop.lineno,
                "U+%04X is written as &%s, which decodes to %r" % (cp, full, ents.get(full)))
    r.check("R14.5", ord("&") not in emap, "reverse-no-amp", "serializer.py:%d" % loop.lineno,
            "'&' itself is in the reverse map")
    f = ctx.repo.func("serializer.py", "htmlentityreplace_errors")
    # the text written for one code point, decided by evaluating the emitting loop's body for a code point whose reverse-map
    # entry ends in ';', one whose entry does not, and one without an entry
    def uses_map(n, depth=0):
        for x in ast.walk(n):
            if isinstance(x, ast.Name) and x.id == "_encode_entity_map":
                return True
            if depth == 0 and isinstance(x, ast.Call) and isinstance(x.func, ast.Name) and x.func.id in f.module.functions and \
                    uses_map(f.module.functions[x.func.id].node, 1):
                return True
        return False
    emit_loop = [n for n in ast.walk(f.node) if isinstance(n, ast.For) and isinstance(n.target, ast.Name) and uses_map(n)]
    whole = _error_handler_evaluated(ctx, f, mod, emap, ents)
    if len(emit_loop) != 1:
        r.idiom("R14.5", whole, "emitted-form", f.where, "the loop that writes the replacement was not found")
    else:
        lp = emit_loop[0]
        for label, table, exp in (("name-with-semicolon", {0xE9: "eacute;"}, "&eacute;"), ("legacy-name", {0xE9: "Eacute"}, "&Eacute;"),
                                  ("no-name", {}, "&#xe9;")):
            pieces = []

            def stmt_hook(st, out, interp, pieces=pieces):
                if isinstance(st, ast.Expr) and isinstance(st.value, ast.Call) and isinstance(st.value.func, ast.Attribute) and \
                        st.value.func.attr == "append" and len(st.value.args) == 1:
                    pieces.append(interp.eval_expr(st.value.args[0], out.env))
                    return False
                return NotImplemented
            interp = MiniInterp(ctx.ce, f.module, stmt_hook=stmt_hook)
            try:
                interp.run(lp.body, {lp.target.id: 0xE9, "_encode_entity_map": table})
                got = "".join(pieces)
            except (AnalysisError, NotConstant, TypeError) as e:
                r.idiom("R14.5", False, "emitted-form::%s" % label, f.where, "the emitting loop is not evaluable (%s)" % str(e)[:80])
                continue
            r.check("R14.5", got == exp, "emitted-form::%s" % label, "serializer.py:%d" % lp.lineno,
                    "an unencodable U+00E9 with reverse-map entry %r is written as %r; a reference the tokenizer decodes back needs %r "
                    "(a name without ';' swallows following letters and is not decoded in attribute values)" % (table.get(0xE9), got, exp),
                    detail={"entry": table.get(0xE9), "written": got})
    ctx.r.extra["reverse_map_entries"] = len(emap)
    # the numeric fallback &#x<hex>; is read back through the numeric-reference rules: code points that those rules remap
    # (the C1 table) or refuse cannot be written as any reference at all
    rep = ctx.ce.const("constants.py", "replacementCharacters")
    lost = sorted(cp for cp, ch in rep.items() if cp not in emap and ch != chr(cp) and cp >= 0x80)
    r.check("R14.5", not lost, "numeric-fallback-remapped[C1]", "serializer.py:%d" % (emit_loop[0].lineno if len(emit_loop) == 1 else f.node.lineno),
            "an unencodable U+%04X..U+%04X (%d code points of the C1 remapping table without a named reference) is written as "
            "&#x%x; etc., which the numeric-reference rules decode to a different character (e.g. U+0080 -> U+20AC)"
            % (lost[0], lost[-1], len(lost), lost[0]) if lost else "", {"code_points": ["U+%04X" % c for c in lost]},
            detail={"remapped_without_name": len(lost)})


def contexts(ctx):
    r = ctx.r
    tm = tokmodel(ctx)
    found = {}
    for (s, atom, combo), arm in tm.arms.items():
        for o in arm.ops:
            if o[0] == "charref":
                found.setdefault((short(s), o[1], o[2]), set()).add(atom if isinstance(atom, str) else str(atom))
    expected = {
        ("entityData", "data", None): {"<none>"},
        ("characterReferenceInRcdata", "data", None): {"<none>"},
        ("attributeValueDoubleQuoted", "attribute", '"'): {"&"},
        ("attributeValueSingleQuoted", "attribute", "'"): {"&"},
        ("attributeValueUnQuoted", "attribute", ">"): {"&"},
    }
    for k in sorted(set(found) | set(expected), key=repr):
        r.check("R14.6", found.get(k) == expected.get(k), "charref-context::%s" % (k,), REL,
                "character references are consumed in %s on %s (expected %s)" % (k, sorted(found.get(k, [])), sorted(expected.get(k, []))),
                detail={"context": k[0], "allowed": k[2]})
    # the wrappers are entered exactly from '&' in data / rcdata
    for st, wrapper in (("dataState", "entityDataState"), ("rcdataState", "characterReferenceInRcdata")):
        ins = sorted(atom_name(a) for a in ATOMS if tm.arm(st, a).next == wrapper)
        r.check("R14.6", ins == ["&"], "wrapper-entry::%s" % short(st), REL,
                "%s enters the character-reference state on %s" % (short(st), ins))
    for st in ("rawtextState", "scriptDataState", "plaintextState"):
        arm = tm.arm(st, "&")
        r.check("R14.6", not any(o[0] == "charref" for o in arm.ops) and arm.next in (None, st), "no-charref::%s" % short(st), REL,
                "%s treats '&' specially" % short(st))
    # consumeEntity: result goes to the attribute value or to a character token
    f = ctx.repo.func(REL, "HTMLTokenizer.consumeEntity")
    src = " ".join(norm(f.node).split())
    r.idiom("R14.6", "if fromAttribute: self.currentToken['data'][-1][1] += output" in src, "attr-output", f.where,
            "in attribute context the decoded text is not appended to the attribute value")
    g = ctx.repo.func(REL, "HTMLTokenizer.processEntityInAttribute")
    r.check("R14.6", "self.consumeEntity(allowedChar=allowedChar, fromAttribute=True)" in norm(g.node), "attr-wrapper", g.where,
            "processEntityInAttribute no longer passes the allowed character / attribute flag")


def trie_rules(ctx, rid="R14.8"):
    """The longest-match of a named reference: the trie the tokenizer uses resolves longest_prefix to a method whose candidate
    sequence is the argument itself and then *every* shorter non-empty prefix in decreasing length, each tested for membership and
    returned on the first hit; has_keys_with_prefix is true for exact keys."""
    r = ctx.r
    repo, ce = ctx.repo, ctx.ce
    init = repo.module("_trie/__init__.py")
    used = None
    for st in init.tree.body:
        if isinstance(st, ast.ImportFrom) and any(a.name == "Trie" for a in st.names):
            used = (st.module or "").lstrip(".")
    if used is None:
        raise AnalysisError("_trie/__init__.py no longer imports Trie from a sibling module")
    cls = repo.cls("_trie/%s.py" % used, "Trie")
    f = cls.find_method("longest_prefix")
    if f is None:
        raise AnalysisError("Trie.longest_prefix vanished")
    p = f.params()[1]
    body = [s for s in f.node.body if not (isinstance(s, ast.Expr) and isinstance(s.value, ast.Constant))]
    where = f.where
    shape_ok = (len(body) == 3 and isinstance(body[0], ast.If) and norm(body[0].test) == "%s in self" % p and
                [norm(x) for x in body[0].body] == ["return %s" % p] and isinstance(body[1], ast.For) and
                isinstance(body[1].target, ast.Name) and len(body[1].body) == 1 and isinstance(body[1].body[0], ast.If) and
                isinstance(body[2], ast.Raise) and "KeyError" in norm(body[2]))
    if shape_ok:
        loop = body[1]
        inner = loop.body[0]
        t = inner.test
        shape_ok = (isinstance(t, ast.Compare) and isinstance(t.ops[0], ast.In) and norm(t.comparators[0]) == "self" and
                    len(inner.body) == 1 and isinstance(inner.body[0], ast.Return) and norm(inner.body[0].value) == norm(t.left))
    if not r.idiom(rid, shape_ok, "longest-prefix-shape", where,
                   "Trie.longest_prefix is not `if p in self: return p; for i in range(..): if cand in self: return cand; raise KeyError`"):
        return
    cand = inner.test.left
    var = loop.target.id
    for n in range(1, 8):
        s = "abcdefgh"[:n]
        try:
            its = list(ce.eval(loop.iter, f.module, {p: s}))
            lens = [len(ce.eval(cand, f.module, {p: s, var: i})) for i in its]
        except NotConstant as e:
            r.idiom(rid, False, "longest-prefix-candidates[len=%d]" % n, where, "candidate sequence not evaluable (%s)" % e)
            continue
        lens = [x for x in lens if x > 0]                   # the empty string is never a key
        exp = list(range(n - 1, 0, -1))
        r.check(rid, lens == exp, "longest-prefix-candidates[len=%d]" % n, "%s:%d" % (f.module.rel, loop.lineno),
                "Trie.longest_prefix tries prefixes of length %s for an argument of length %d (after the argument itself); the longest "
                "match needs every length %s in this order (e.g. &notit; must match &not, not a shorter or no reference)" % (lens, n, exp),
                {"len": n, "candidates": lens}, detail={"len": n, "candidates": lens})
    g = cls.find_method("has_keys_with_prefix")
    r.check(rid, g is not None, "has-keys-with-prefix", cls.where, "Trie.has_keys_with_prefix vanished")


def thorough(ctx):
    from .. import selftest
    selftest.run(ctx, sys.modules[__name__])


def mutants():
    from ..selftest import TextMutant as T
    return [
        T("attr-exception-last-char", "_tokenizer.py", "                    (charStack[entityLength] in asciiLetters or\n                     charStack[entityLength] in digits or\n                     charStack[entityLength] == \"=\")):", "                    (charStack[-1] in asciiLetters or\n                     charStack[-1] in digits or\n                     charStack[-1] == \"=\")):", "R14.4"),
        T("int-unbounded-digits", "_tokenizer.py", "        number = \"\".join(charStack).lstrip(\"0\")\n        if len(number) > 7:\n            charAsInt = 0x110000\n        else:\n            charAsInt = int(number or \"0\", radix)\n",
          "        charAsInt = int(\"\".join(charStack), radix)\n", "R14.3"),
        T("eight-digits-out-of-range", "_tokenizer.py", "        if len(number) > 7:", "        if len(number) > 5:", "R14.3"),
        T("trie-skip-one", "_trie/_base.py", "        for i in range(1, len(prefix) + 1):", "        for i in range(2, len(prefix) + 1):", "R14.8"),
        T("trie-increasing", "_trie/_base.py", "            if prefix[:-i] in self:\n                return prefix[:-i]", "            if prefix[:i] in self:\n                return prefix[:i]", "R14.8"),
        T("entity-value", "constants.py", '"AElig": "\\xc6",', '"AElig": "\\xc5",', "R14.1"),
        T("entity-missing", "constants.py", '    "amp": "&",\n', '', "R14.1"),
        T("replacement-80", "constants.py", '    0x80: "\\u20AC",', '    0x80: "\\u0080",', "R14.2"),
        T("surrogate-bound", REL, "elif ((0xD800 <= charAsInt <= 0xDFFF) or", "elif ((0xD800 < charAsInt <= 0xDFFF) or", "R14.3"),
        T("max-bound", REL, "              (charAsInt > 0x10FFFF)):", "              (charAsInt > 0x10FFFE)):", "R14.3"),
        T("radix", REL, "            allowed = hexDigits\n            radix = 16", "            allowed = hexDigits\n            radix = 10", "R14.3"),
        T("attr-exception-no-eq", REL, "                     charStack[entityLength] == \"=\")):", "                     charStack[entityLength] == \"-\")):", "R14.4"),
        T("attr-exception-always", REL, "                if (entityName[-1] != \";\" and fromAttribute and\n", "                if (entityName[-1] != \";\" and\n", "R14.4"),
        T("charref-in-rawtext", REL, "    def rawtextState(self):\n        data = self.stream.char()\n        if data == \"<\":",
          "    def rawtextState(self):\n        data = self.stream.char()\n        if data == \"&\":\n            self.consumeEntity()\n        elif data == \"<\":", "R14.6"),
        T("allowed-char", REL, "            self.processEntityInAttribute(\"'\")", "            self.processEntityInAttribute('\"')", "R14.6"),
        T("precheck-lt", REL, "charStack[0] in (EOF, \"<\", \"&\")", "charStack[0] in (EOF, \"&\")", "R14.7"),
        T("reverse-prefers-any", "serializer.py", "        if v not in _encode_entity_map or k.islower():\n            # prefer &lt; over &LT; and similarly for &amp;, &gt;, etc.\n            _encode_entity_map[v] = k",
          "        if v not in _encode_entity_map or k.islower():\n            # prefer &lt; over &LT; and similarly for &amp;, &gt;, etc.\n            _encode_entity_map[v] = k.rstrip(\"c;\")", "R14.5"),
    ]


def preserving():
    from ..selftest import TextMutant as T
    return [
        T("chained-compare", REL, "elif ((0xD800 <= charAsInt <= 0xDFFF) or", "elif ((charAsInt >= 0xD800 and charAsInt <= 0xDFFF) or", None),
    ]
