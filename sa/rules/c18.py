"""C18 -- the alphabetical-attributes filter only reorders, deterministically.

R18.1 EFFECTS  only StartTag / EmptyTag tokens have `data` replaced; every token is yielded once, in order
R18.2 LOSSLESS the replacement is built by inserting every (key, value) pair of sorted(items) under its own key
R18.3 KEY      the sort key is (namespace or '', local name): never compares None with str, total, deterministic
"""
from __future__ import annotations

import ast
import sys

from ..repo import AnalysisError, norm
from ..partition import MiniInterp, Opaque, FRESH

LEVEL = "other"
TECHNIQUE = ('stream-filter effect table by branch partition over token types; idiom check of the rebuild loop; evaluation of the sort key on representative attribute keys (prefix and totality)')
CLAIM = ('For every token type the filter yields the token once; only start/empty tags get a new attribute '
         'mapping, which is filled by inserting each original (key, value) pair under its own key in sorted '
         "order, so nothing is lost, merged or altered; the sort key replaces a None namespace by '' before "
         'comparing, so it is total on mixed namespaces and independent of the incoming order. Every ordering '
         "call uses the key function; the key function yields (namespace or '', local name) on representative "
         'keys.'
         " The sort key is total on attribute keys: (None, x) and ('', x) get different keys.")
NOT_DECIDED = "nothing else in the statement."
MODULES = ["filters/alphabeticalattributes.py", "filters/base.py"]
REL = "filters/alphabeticalattributes.py"
TYPES = ["Doctype", "Characters", "SpaceCharacters", "StartTag", "EndTag", "EmptyTag", "Comment", "Entity", "SerializeError", FRESH]


def run(ctx):
    r = ctx.r
    ce, repo = ctx.ce, ctx.repo
    r.explanation = "Loop body of Filter.__iter__ decided per token type; the rebuild loop and the key function are matched structurally."
    r.not_decided = NOT_DECIDED
    r.rule("R18.1", "every token yielded once; only StartTag/EmptyTag data is replaced", floor=10)
    r.rule("R18.2", "the new mapping receives every (key, value) of sorted(token['data'].items(), key=K) under its own key", floor=3)
    r.rule("R18.3", "sort key = (namespace or '', local name)", floor=5)
    f = repo.func(REL, "Filter.__iter__")
    body = [s for s in f.node.body if not (isinstance(s, ast.Expr) and isinstance(s.value, ast.Constant))]
    if not (len(body) == 1 and isinstance(body[0], ast.For) and norm(body[0].iter) == "base.Filter.__iter__(self)"
            and isinstance(body[0].target, ast.Name)):
        raise AnalysisError("alphabeticalattributes Filter.__iter__ is not a single loop over the source")
    tok = body[0].target.id
    rebuild = []
    direct = []

    def stmt_hook(st, out, interp):
        if isinstance(st, ast.For):
            rebuild.append(st)
            out.effects.append(type("E", (), {"node": ast.Expr(value=ast.Constant("rebuild")), "text": "rebuild"})())
            return False
        return NotImplemented
    interp = MiniInterp(ce, f.module, stmt_hook=stmt_hook)
    for ty in TYPES:
        token = {"type": ty, "name": "x", "data": {}}
        res = interp.run(body[0].body, {tok: token, "self": Opaque("self")})
        ys = [e for e in res.effects if isinstance(e.node, ast.Expr) and isinstance(e.node.value, ast.Yield)]
        stores = [e for e in res.effects if isinstance(e.node, ast.Assign) and norm(e.node.targets[0]).startswith(tok + "[")]
        touched = bool(stores) or any(e.text == "rebuild" for e in res.effects)
        passed = len(ys) == 1 and norm(ys[0].node.value.value) == tok and res.effects[-1] is ys[0]
        data_stores = [s for s in stores if norm(s.node.targets[0]) == "%s['data']" % tok]
        if ty in ("StartTag", "EmptyTag"):
            shape = len(stores) == 1 and len(data_stores) == 1 and (
                isinstance(data_stores[0].node.value, ast.Name) or
                (isinstance(data_stores[0].node.value, ast.Call) and norm(data_stores[0].node.value.func) in ("OrderedDict", "dict")))
            if shape and not isinstance(data_stores[0].node.value, ast.Name):
                direct.append(data_stores[0].node)
            r.idiom("R18.1", passed and shape, "type=%s" % ty, f.where, "alphabetical filter on a %s token: yields=%d stores=%s" % (
                ty, len(ys), [s.text for s in stores]),
                wrong=[(not passed, "alphabetical filter: a %s token is not passed on exactly once, after its attributes were rebuilt" % ty),
                       (not stores and not touched, "alphabetical filter: the attributes of a %s token are not sorted" % ty),
                       (bool(stores) and not data_stores, "alphabetical filter: a %s token is modified other than in its attribute mapping: %s"
                        % (ty, [s.text for s in stores]))],
                detail={"type": ty, "data_replaced": bool(stores)})
        else:
            r.check("R18.1", passed and not touched, "type=%s" % ty, f.where, "alphabetical filter on a %s token: yields=%d stores=%s" % (
                ty, len(ys), [s.text for s in stores]), detail={"type": ty, "data_replaced": bool(stores)})
    # every ordering of the attributes goes through the key function (raw (namespace, name) tuples compare None with str)
    sorts = [c for c in ast.walk(f.node) if isinstance(c, ast.Call) and norm(c.func) in ("sorted",) or
             (isinstance(c, ast.Call) and isinstance(c.func, ast.Attribute) and c.func.attr == "sort")]
    for i, c in enumerate(sorts):
        kw = [k for k in c.keywords if k.arg == "key"]
        r.check("R18.2", len(kw) == 1 and norm(kw[0].value) == "_attr_key", "sorted-with-key@%d" % i, "%s:%d" % (REL, c.lineno),
                "`%s` orders attributes without the key function: keys are (namespace, name) tuples, so an attribute with namespace "
                "None next to one with namespace '' raises TypeError, and the order is not (namespace or '', local name)" % norm(c)[:60],
                detail={"call": norm(c)[:60]})
    if not sorts:
        r.idiom("R18.2", False, "sorted-with-key", f.where, "no sorting call found in the filter")
    # R18.2
    loops = {id(x): x for x in rebuild}
    if not loops and direct:
        # direct form: token['data'] = OrderedDict(sorted(token['data'].items(), key=K)) -- the constructor inserts each pair
        # under its own key, in iteration order
        call = direct[0].value
        it = call.args[0] if len(call.args) == 1 else None
        ok_iter = (isinstance(it, ast.Call) and norm(it.func) == "sorted" and len(it.args) == 1 and
                   norm(it.args[0]) == "%s['data'].items()" % tok and
                   [k.arg for k in it.keywords] == ["key"] and norm(it.keywords[0].value) == "_attr_key")
        r.idiom("R18.2", ok_iter, "iterates-sorted-items", "%s:%d" % (REL, direct[0].lineno),
                "the new mapping is not built from sorted(token['data'].items(), key=_attr_key): %s" % (norm(it) if it is not None else "?"))
        r.ok("R18.2", "inserts-under-own-key", "%s:%d" % (REL, direct[0].lineno), detail={"form": "mapping constructor"})
        r.idiom("R18.2", norm(call.func) in ("OrderedDict", "dict"), "fresh-ordered-mapping", f.where,
                "the new attribute mapping is not a fresh insertion-ordered mapping")
        key_rule(ctx)
        return
    if len(loops) != 1:
        raise AnalysisError("alphabeticalattributes: rebuild loop not found")
    lp = list(loops.values())[0]
    it = lp.iter
    ok_iter = (isinstance(it, ast.Call) and norm(it.func) == "sorted" and len(it.args) == 1 and
               norm(it.args[0]) == "%s['data'].items()" % tok and
               [k.arg for k in it.keywords] == ["key"] and norm(it.keywords[0].value) == "_attr_key")
    if not ok_iter and isinstance(it, ast.Name):
        # `pairs = list(token['data'].items()); pairs.sort(key=_attr_key); for .. in pairs`
        defs = [a for a in ast.walk(f.node) if isinstance(a, ast.Assign) and len(a.targets) == 1 and norm(a.targets[0]) == it.id]
        sorts_ = [c for c in ast.walk(f.node) if isinstance(c, ast.Call) and isinstance(c.func, ast.Attribute) and c.func.attr == "sort" and
                  norm(c.func.value) == it.id and [k.arg for k in c.keywords] == ["key"] and norm(c.keywords[0].value) == "_attr_key" and not c.args]
        ok_iter = len(defs) == 1 and norm(defs[0].value) in ("list(%s['data'].items())" % tok, "[*%s['data'].items()]" % tok) and len(sorts_) == 1 and \
            defs[0].lineno < sorts_[0].lineno < lp.lineno
    r.idiom("R18.2", ok_iter, "iterates-sorted-items", "%s:%d" % (REL, lp.lineno),
            "the rebuild loop does not iterate sorted(token['data'].items(), key=_attr_key): %s" % norm(it))
    tgt = lp.target
    pair = isinstance(tgt, ast.Tuple) and len(tgt.elts) == 2 and isinstance(tgt.elts[1], ast.Name)
    key_txt = norm(tgt.elts[0]).strip("()") if pair else None            # the key as the loop unpacks it: `name` or `namespace, name`
    stores = [s for s in ast.walk(lp) if isinstance(s, ast.Assign) and isinstance(s.targets[0], ast.Subscript) and norm(s.targets[0].value) == "attrs"]
    own_key = pair and len(stores) == 1 and norm(stores[0].targets[0].slice).strip("()") == key_txt and norm(stores[0].value) == tgt.elts[1].id \
        and stores[0] is lp.body[0] and len(lp.body) == 1 and not lp.orelse
    r.idiom("R18.2", bool(own_key), "inserts-under-own-key", "%s:%d" % (REL, lp.lineno),
            "the rebuild loop does not insert each pair under its own key: %s" % [norm(s) for s in lp.body],
            wrong=[(pair and len(stores) == 1 and not own_key,
                    "the rebuild loop stores a pair under `%s` instead of its own key `%s` (or stores something other than its value): "
                    "attributes whose keys differ only in what was changed (namespace '' vs None) are merged and one value is lost"
                    % (norm(stores[0].targets[0].slice) if stores else "", key_txt))])
    pre = [s for s in ast.walk(f.node) if isinstance(s, ast.Assign) and norm(s.targets[0]) == "attrs"]
    r.idiom("R18.2", len(pre) == 1 and norm(pre[0].value) in ("OrderedDict()", "{}", "dict()"), "fresh-ordered-mapping",
            f.where, "the new attribute mapping is not a fresh insertion-ordered mapping")
    key_rule(ctx)


def key_rule(ctx):
    """R18.3: the sort key is decided by evaluating the (pure) key function on representative attribute items."""
    r = ctx.r
    repo, ce = ctx.repo, ctx.ce
    k = repo.func(REL, "_attr_key")
    a = k.params()[0]
    interp = MiniInterp(ce, k.module)
    samples = [((None, "b"), "1"), (("http://www.w3.org/1999/xlink", "href"), "2"), (("", "c"), "3"), ((None, ""), "4")]
    for item in samples:
        key = "key[%r]" % (item[0],)
        try:
            res = interp.run(k.node.body, {a: item})
            got = res.value
        except AnalysisError as e:
            r.idiom("R18.3", False, key, k.where, "the sort key function is not evaluable (%s)" % str(e)[:80])
            continue
        exp = (item[0][0] or "", item[0][1])
        r.check("R18.3", isinstance(got, tuple) and got[:2] == exp, key, k.where,
                "the sort key of attribute %r is %r; it must be (namespace or '', local name) = %r so that un-namespaced attributes "
                "sort together and None never meets a string" % (item[0], got, exp), detail={"item": item[0], "key": got})
    # the order has to be total on attribute keys: (None, x) and ('', x) are two attributes (the etree walker reports `{}x` as
    # ('', 'x')), and with equal sort keys their order in the output is their order in the input
    try:
        k1 = interp.run(k.node.body, {a: ((None, "x"), "1")}).value
        k2 = interp.run(k.node.body, {a: (("", "x"), "2")}).value
        r.check("R18.3", k1 != k2, "key-total[None vs '']", k.where,
                "the attributes (None, 'x') and ('', 'x') get the same sort key %r: sorted() is stable, so their order in the output is their "
                "order in the input -- the result depends on the incoming order" % (k1,), detail={"keys": [repr(k1), repr(k2)]})
    except AnalysisError as e:
        r.idiom("R18.3", False, "key-total[None vs '']", k.where, "the sort key function is not evaluable (%s)" % str(e)[:80])
    calls = [norm(n) for n in ast.walk(k.node) if isinstance(n, ast.Call)]
    r.check("R18.3", not calls, "key-pure", k.where, "the sort key calls %s: it must depend on the attribute key only" % calls)


def thorough(ctx):
    from .. import selftest
    selftest.run(ctx, sys.modules[__name__])


def mutants():
    from ..selftest import TextMutant as T
    return [
        T("sorted-without-key", REL, "                for name, value in sorted(token[\"data\"].items(),\n                                          key=_attr_key):", "                for name, value in sorted(token[\"data\"].items()):", "R18.2"),
        T("key-none", REL, "    return (attr[0][0] or ''), attr[0][1], attr[0][0] is not None", "    return attr[0][0], attr[0][1]", "R18.3"),
        T("key-ties", REL, "    return (attr[0][0] or ''), attr[0][1], attr[0][0] is not None", "    return (attr[0][0] or ''), attr[0][1]", "R18.3"),
        T("key-local-only", REL, "    return (attr[0][0] or ''), attr[0][1], attr[0][0] is not None", "    return attr[0][1]", "R18.3"),
        T("merge-by-local", REL, "                    attrs[name] = value", "                    attrs[(None, name[1])] = value", "R18.2"),
        T("endtag-touched", REL, "            if token[\"type\"] in (\"StartTag\", \"EmptyTag\"):", "            if token[\"type\"] in (\"StartTag\", \"EmptyTag\", \"EndTag\"):", "R18.1"),
        T("emptytag-skipped", REL, "            if token[\"type\"] in (\"StartTag\", \"EmptyTag\"):", "            if token[\"type\"] in (\"StartTag\",):", "R18.1"),
        T("drop-valueless", REL, "                    attrs[name] = value", "                    if value:\n                        attrs[name] = value", "R18.2"),
    ]


def preserving():
    return []
