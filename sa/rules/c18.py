"""C18 -- the alphabetical-attributes filter only reorders, deterministically.

R18.1 EFFECTS  only StartTag / EmptyTag tokens have `data` replaced; every token is yielded once, in order
R18.2 LOSSLESS the replacement is built by inserting every (key, value) pair of sorted(items) under its own key
R18.3 KEY      the sort key is (namespace or '', local name): never compares None with str, total, deterministic
"""
from __future__ import annotations

import ast
import sys

from ..repo import AnalysisError, norm
from ..partition import MiniInterp, Opaque, FRESH

LEVEL = "other"
TECHNIQUE = "stream-filter effect table by branch partition over token types; idiom check of the rebuild loop; small type inference on the sort key"
CLAIM = ("For every token type the filter yields the token once; only start/empty tags get a new attribute mapping, which is "
         "filled by inserting each original (key, value) pair under its own key in sorted order, so nothing is lost, merged or "
         "altered; the sort key replaces a None namespace by '' before comparing, so it is total on mixed namespaces and "
         "independent of the incoming order.")
NOT_DECIDED = "nothing else in the statement; distinct keys ('', x) and (None, x) sort equal but both are kept (stable order)."
MODULES = ["filters/alphabeticalattributes.py", "filters/base.py"]
REL = "filters/alphabeticalattributes.py"
TYPES = ["Doctype", "Characters", "SpaceCharacters", "StartTag", "EndTag", "EmptyTag", "Comment", "Entity", "SerializeError", FRESH]


def run(ctx):
    r = ctx.r
    ce, repo = ctx.ce, ctx.repo
    r.explanation = "Loop body of Filter.__iter__ decided per token type; the rebuild loop and the key function are matched structurally."
    r.not_decided = NOT_DECIDED
    r.rule("R18.1", "every token yielded once; only StartTag/EmptyTag data is replaced", floor=10)
    r.rule("R18.2", "the new mapping receives every (key, value) of sorted(token['data'].items(), key=K) under its own key", floor=3)
    r.rule("R18.3", "sort key = (namespace or '', local name)", floor=2)
    f = repo.func(REL, "Filter.__iter__")
    body = [s for s in f.node.body if not (isinstance(s, ast.Expr) and isinstance(s.value, ast.Constant))]
    if not (len(body) == 1 and isinstance(body[0], ast.For) and norm(body[0].iter) == "base.Filter.__iter__(self)"
            and isinstance(body[0].target, ast.Name)):
        raise AnalysisError("alphabeticalattributes Filter.__iter__ is not a single loop over the source")
    tok = body[0].target.id
    rebuild = []

    def stmt_hook(st, out, interp):
        if isinstance(st, ast.For):
            rebuild.append(st)
            out.effects.append(type("E", (), {"node": ast.Expr(value=ast.Constant("rebuild")), "text": "rebuild"})())
            return False
        return NotImplemented
    interp = MiniInterp(ce, f.module, stmt_hook=stmt_hook)
    for ty in TYPES:
        token = {"type": ty, "name": "x", "data": {}}
        res = interp.run(body[0].body, {tok: token, "self": Opaque("self")})
        ys = [e for e in res.effects if isinstance(e.node, ast.Expr) and isinstance(e.node.value, ast.Yield)]
        stores = [e for e in res.effects if isinstance(e.node, ast.Assign) and norm(e.node.targets[0]).startswith(tok + "[")]
        touched = bool(stores) or any(e.text == "rebuild" for e in res.effects)
        ok = len(ys) == 1 and norm(ys[0].node.value.value) == tok and res.effects[-1] is ys[0]
        if ty in ("StartTag", "EmptyTag"):
            ok = ok and [norm(s.node) for s in stores] == ["%s['data'] = attrs" % tok]
        else:
            ok = ok and not touched
        r.check("R18.1", ok, "type=%s" % ty, f.where, "alphabetical filter on a %s token: yields=%d stores=%s" % (
            ty, len(ys), [s.text for s in stores]), detail={"type": ty, "data_replaced": bool(stores)})
    # R18.2
    loops = {id(x): x for x in rebuild}
    if len(loops) != 1:
        raise AnalysisError("alphabeticalattributes: rebuild loop not found")
    lp = list(loops.values())[0]
    it = lp.iter
    ok_iter = (isinstance(it, ast.Call) and norm(it.func) == "sorted" and len(it.args) == 1 and
               norm(it.args[0]) == "%s['data'].items()" % tok and
               [k.arg for k in it.keywords] == ["key"] and norm(it.keywords[0].value) == "_attr_key")
    r.idiom("R18.2", ok_iter, "iterates-sorted-items", "%s:%d" % (REL, lp.lineno),
            "the rebuild loop does not iterate sorted(token['data'].items(), key=_attr_key): %s" % norm(it))
    tgt = lp.target
    ok_body = (isinstance(tgt, ast.Tuple) and len(tgt.elts) == 2 and all(isinstance(e, ast.Name) for e in tgt.elts) and
               [norm(s) for s in lp.body] == ["attrs[%s] = %s" % (tgt.elts[0].id, tgt.elts[1].id)] and not lp.orelse)
    own = isinstance(tgt, ast.Tuple) and len(tgt.elts) == 2 and all(isinstance(e, ast.Name) for e in tgt.elts)
    stores = [s for s in ast.walk(lp) if isinstance(s, ast.Assign) and isinstance(s.targets[0], ast.Subscript) and norm(s.targets[0].value) == "attrs"]
    r.idiom("R18.2", ok_body, "inserts-under-own-key", "%s:%d" % (REL, lp.lineno),
            "the rebuild loop does not insert each pair under its own key: %s" % [norm(s) for s in lp.body],
            wrong=[(own and len(stores) == 1 and (norm(stores[0].targets[0].slice) != tgt.elts[0].id or norm(stores[0].value) != tgt.elts[1].id
                                                  or stores[0] is not lp.body[0]), None)])
    pre = [s for s in ast.walk(f.node) if isinstance(s, ast.Assign) and norm(s.targets[0]) == "attrs"]
    r.idiom("R18.2", len(pre) == 1 and norm(pre[0].value) in ("OrderedDict()", "{}", "dict()"), "fresh-ordered-mapping",
            f.where, "the new attribute mapping is not a fresh insertion-ordered mapping")
    # R18.3
    k = repo.func(REL, "_attr_key")
    rets = [s for s in k.node.body if isinstance(s, ast.Return)]
    a = k.params()[0]
    good = len(rets) == 1 and norm(rets[0].value) in ("(%s[0][0] or '', %s[0][1])" % (a, a),
                                                      "('' if %s[0][0] is None else %s[0][0], %s[0][1])" % (a, a, a))
    keytxt = norm(rets[0].value) if len(rets) == 1 else ""
    simple = len(rets) == 1 and len(k.node.body) <= 2 and not any(isinstance(n, ast.Assign) for n in k.node.body)
    r.idiom("R18.3", good, "key-shape", k.where,
            "the sort key is `%s`; it must map a None namespace to '' and then use the local name" % (keytxt or "?"),
            wrong=[(simple and not good, None)], detail={"key": keytxt})
    calls = [norm(n) for n in ast.walk(k.node) if isinstance(n, ast.Call)]
    r.check("R18.3", not calls, "key-pure", k.where, "the sort key calls %s: it must depend on the attribute key only" % calls)


def thorough(ctx):
    from .. import selftest
    selftest.run(ctx, sys.modules[__name__])


def mutants():
    from ..selftest import TextMutant as T
    return [
        T("key-none", REL, "    return (attr[0][0] or ''), attr[0][1]", "    return attr[0][0], attr[0][1]", "R18.3"),
        T("key-local-only", REL, "    return (attr[0][0] or ''), attr[0][1]", "    return attr[0][1]", "R18.3"),
        T("merge-by-local", REL, "                    attrs[name] = value", "                    attrs[(None, name[1])] = value", "R18.2"),
        T("endtag-touched", REL, "            if token[\"type\"] in (\"StartTag\", \"EmptyTag\"):", "            if token[\"type\"] in (\"StartTag\", \"EmptyTag\", \"EndTag\"):", "R18.1"),
        T("emptytag-skipped", REL, "            if token[\"type\"] in (\"StartTag\", \"EmptyTag\"):", "            if token[\"type\"] in (\"StartTag\",):", "R18.1"),
        T("drop-valueless", REL, "                    attrs[name] = value", "                    if value:\n                        attrs[name] = value", "R18.2"),
    ]


def preserving():
    return []
