"""HTML white space is exactly TAB, LF, FF, CR and SPACE.  Python's own notion (str.isspace(), argument-less strip / lstrip /
rstrip / split, \\s in a str pattern) also covers VT, the C0 separators U+001C-U+001F, NEL, NBSP and every Unicode space, so
using it to classify document characters on the parse / walk path changes what counts as a white-space token: a character
reference to NBSP between </head> and <body> becomes "white space" and lands directly under <html>, text edges are split
differently, ...  Today's tree has no such use; every function of the listed modules is scanned and a built-in positive
example keeps the rule alive."""
from __future__ import annotations

import ast

from ..repo import AnalysisError, ModuleInfo, norm, walk_no_nested

# (_inputstream.py is not scanned: it also handles encoding labels, which are not document characters)
MODULES = ["_tokenizer.py", "html5parser.py", "treebuilders/base.py", "treebuilders/etree.py", "treebuilders/dom.py",
           "treewalkers/base.py", "treewalkers/etree.py", "treewalkers/dom.py", "filters/whitespace.py", "filters/optionaltags.py"]

POSITIVE = '''
def f(data, token):
    if data.isspace():
        return 1
    a = data.strip()
    b = token["data"].lstrip()
    c = data.strip(" \\t")
    return data.split()
'''


def unicode_ws_uses(fn_node):
    out = []
    for c in walk_no_nested(fn_node):
        if isinstance(c, ast.Call) and isinstance(c.func, ast.Attribute):
            if c.func.attr == "isspace" and not c.args:
                out.append((c, "str.isspace()"))
            elif c.func.attr in ("strip", "lstrip", "rstrip", "split") and not c.args and not c.keywords:
                out.append((c, "argument-less str.%s()" % c.func.attr))
    return out


def run(ctx, rid):
    r = ctx.r
    r.rule(rid, "document characters are classified with the five HTML white-space characters, never with Python's Unicode-aware predicates", floor=100)
    for rel in MODULES:
        mod = ctx.repo.module(rel)
        for f in mod.all_functions:
            uses = unicode_ws_uses(f.node)
            if not uses:
                r.ok(rid, "html-whitespace-only::%s::%s" % (rel, f.qual), f.where)
            for c, what in uses:
                r.bad(rid, "html-whitespace-only::%s::%s::%s" % (rel, f.qual, norm(c)[:40]), "%s:%d" % (rel, c.lineno),
                      "%s classifies document characters with %s (`%s`): VT, U+001C-U+001F, NEL, NBSP and the Unicode spaces then count as "
                      "white space (&nbsp; between </head> and <body> becomes a white-space token and ends up directly under <html>; text "
                      "edges are split into SpaceCharacters tokens that the Lint filter rejects)" % (f.qual, what, norm(c)[:50]),
                      {"function": f.qual, "call": norm(c)[:60]})
    pos = ModuleInfo("positive_wslint.py", "<positive example>", source=POSITIVE)
    found = sorted(w for c, w in unicode_ws_uses(pos.all_functions[0].node))
    r.positive(rid, found == ["argument-less str.lstrip()", "argument-less str.split()", "argument-less str.strip()", "str.isspace()"])
