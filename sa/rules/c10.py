"""C10 -- sanitized markup stays safe when it is parsed again (necessary conditions only).

The composition parser . serializer . sanitizer over all inputs is NOT decided.  Decided:
R10.1 disallowed tags become Characters tokens (so the serializer's text escaping, C08 S1, applies)  [= R9.1]
R10.2 no allow-listed element (local name, in any namespace: the serializer decides raw text by bare name) is one whose
      text the serializer writes raw or the parser reads as raw text / PLAINTEXT
R10.3 in the serializer pipeline the sanitizer runs before optional-tag omission (nothing after it adds markup)
R10.6 integration-point elements of an allowed foreign root are on the allow-list too (else their HTML children break out)
R10.7 tag omission does not leave a foreign integration point open (</p> before </desc> etc.; shared with R13.4b)
R10.4 the serializer's text escaping (S1, S3) and attribute quoting / escaping (Q2, Q4) hold -- what the sanitizer hands on
      as text or as an attribute value is read back as text / the same value
"""
from __future__ import annotations

import ast
import sys

from ..repo import AnalysisError, norm
from .c01 import cmm

LEVEL = "other"
TECHNIQUE = "table disjointness between the sanitizer's allow-list, the serializer's raw-text set and the parser's content-model map; pipeline order"
CLAIM = ('Two structural preconditions of re-parse safety: a tag the sanitizer rejects leaves it as text '
         '(which the serializer escapes), and no element on the default allow-list is one whose content the '
         'serializer would write unescaped or the parser would re-read as raw text, in any namespace; the '
         "sanitizer precedes tag omission; the serializer's text escaping and attribute quoting/escaping rules "
         '(shared with C08/C07) hold, so text and attribute values handed on by the sanitizer are read back as '
         'text and as the same values. Integration-point elements of an allowed foreign root that contains an '
         'element named like an HTML raw-text element are themselves allowed, and tag omission does not leave '
         'such an integration point open (both are violated today: two recorded mutation-XSS witnesses).')
NOT_DECIDED = ("the composition itself: mutation-XSS through foreign content, integration points, table foster parenting, "
               "select, noscript with scripting on; custom allow-lists that include raw-text elements.")
MODULES = ["filters/sanitizer.py", "serializer.py", "constants.py", "html5parser.py", "_tokenizer.py"]


def run(ctx):
    r = ctx.r
    ce = ctx.ce
    r.explanation = ("Evaluated default allow-list of the sanitizer is intersected with the serializer's raw-text set and the "
                     "parser's element -> tokenizer-state map; the element gate of C09 is re-checked; the filter order in "
                     "HTMLSerializer.serialize is read off its statement order.")
    r.not_decided = NOT_DECIDED
    from . import c09
    c09.declare(ctx)
    c09.element_gate(ctx)
    r.rule("R10.2", "no allow-listed element name is written raw by the serializer or read as raw text / PLAINTEXT by the parser", floor=100)
    r.rule("R10.3", "sanitizer runs before optional-tag omission and after nothing that could add markup", floor=2)
    allowed = ce.const("filters/sanitizer.py", "allowed_elements")
    raw = set(ce.const("constants.py", "rcdataElements"))
    model = cmm(ctx)
    parser_raw = {n for n, v in model.items() if any(s in ("rawtext", "scriptData", "plaintext") for s, c in v)}
    danger = raw | parser_raw | {"plaintext"}
    where = ce.provenance(ctx.repo.module("filters/sanitizer.py"), "allowed_elements")
    for ns, name in sorted(allowed, key=lambda x: (str(x[0]), x[1])):
        r.check("R10.2", name not in danger, "allowed:%s" % name + ("" if ns and ns.endswith("xhtml") else "@" + str(ns).rsplit("/", 1)[-1]),
                where, "<%s> is on the sanitizer's allow-list, but its text is written raw by the serializer / read as raw "
                "text by the parser: escaped text inside it comes back as markup" % name, {"element": name, "namespace": ns})
    r.extra["raw_or_plaintext_elements"] = sorted(danger)
    f = ctx.repo.func("serializer.py", "HTMLSerializer.serialize")
    order = []
    for st in f.node.body:
        if isinstance(st, ast.If):
            t = norm(st.test)
            for key in ("inject_meta_charset", "alphabetical_attributes", "strip_whitespace", "sanitize", "omit_optional_tags"):
                if t.endswith("self." + key) or ("self." + key) in t:
                    order.append(key)
    r.check("R10.3", "sanitize" in order and "omit_optional_tags" in order and order.index("sanitize") < order.index("omit_optional_tags"),
            "sanitize-before-omission", f.where, "filter order is %s: optional-tag omission must come after the sanitizer" % order,
            detail={"order": order})
    r.check("R10.3", order[-2:] == ["sanitize", "omit_optional_tags"], "nothing-after-sanitizer", f.where,
            "a filter other than tag omission runs after the sanitizer: %s" % order)
    # R10.6: an element in which HTML content is parsed although its parent is foreign (an HTML / MathML-text integration
    # point) must not be rejected while the foreign root is allowed: its HTML children would be left directly inside the foreign
    # element, break out of it on re-parse, and the allow-listed foreign elements that follow (svg <title>, ...) would be read
    # in the HTML context (RCDATA), where attribute text becomes markup
    r.rule("R10.6", "integration-point elements of an allowed foreign root are allowed themselves", floor=6)
    ns = ce.const("constants.py", "namespaces")
    hip = set(ce.const("constants.py", "htmlIntegrationPointElements")) | set(ce.const("constants.py", "mathmlTextIntegrationPointElements"))
    roots = {ns["svg"]: (ns["svg"], "svg"), ns["mathml"]: (ns["mathml"], "math")}
    # the context change is dangerous where an allow-listed element of that namespace has the name of an element whose
    # content the HTML parser reads as RCDATA / raw text (svg <title>): its attribute text and children become raw text
    text_named = {n for n, v in model.items() if any(s in ("rcdata", "rawtext", "scriptData", "plaintext") for s, c in v)} | {"plaintext"}
    exposed = {e_ns: sorted(n for (a_ns, n) in allowed if a_ns == e_ns and n in text_named) for e_ns in roots}
    r.extra["allowed_foreign_elements_named_like_text_elements"] = {roots[k][1]: v for k, v in exposed.items()}
    for e_ns, e_name in sorted(hip):
        root = roots.get(e_ns)
        if root is None or root not in allowed:
            continue
        if not exposed.get(e_ns):
            r.ok("R10.6", "integration-point-allowed:%s %s" % (root[1], e_name), where,
                 detail={"root": root[1], "element": e_name, "note": "no allow-listed element of this namespace is named like an HTML text element"})
            continue
        r.check("R10.6", (e_ns, e_name) in allowed, "integration-point-allowed:%s %s" % (root[1], e_name), where,
                "<%s> is allowed but its integration point <%s> is not: the rejected tag becomes text and its HTML children stay "
                "directly inside <%s>; re-parsed, they break out of the foreign content and following allow-listed foreign "
                "elements such as <title> are read as HTML raw-text elements, in which attribute text is markup" % (root[1], e_name, root[1]),
                {"root": root[1], "element": e_name}, detail={"root": root[1], "element": e_name})
    # R10.7: tag omission after the sanitizer must not change the context either: </p> dropped before the end tag of a foreign
    # integration point (shared with R13.4b)
    if "omit_optional_tags" in order:
        from . import c13_parser
        r.rule("R10.7", "tag omission keeps foreign integration points closed (</p> before </desc>, </title>, </foreignObject>)", floor=3)
        c13_parser.foreign_parent_cases(ctx, "R10.7", only_namespaces={roots[k][1] if roots[k][1] != "math" else "mathml" for k, v in exposed.items() if v})
    # R10.4: what the sanitizer hands on as text / attribute values is re-read as text / the same value: the serializer's
    # text escaping (S1) and attribute quoting / escaping (Q2, Q4) are preconditions of re-parse safety as well
    from . import c07, c08
    r.rule("S1", "text outside raw-text elements is emitted only through escape(), which covers the data-state delimiters", floor=2)
    r.rule("S3", "the '</' check dominates raw text emission", floor=1)
    c08.text_rules(ctx)
    r.rule("S7", "every component of an attribute key is emitted or reported", floor=1)
    c08.attr_key_rule(ctx)
    r.rule("Q2", "both needs-quotes classes contain the characters special in an unquoted value; empty value is quoted", floor=3)
    r.rule("Q4", "'&' and the delimiter in use are escaped in attribute values on every path", floor=3)
    c07.quoting(ctx)
    c07.escaping(ctx)


def thorough(ctx):
    from .. import selftest
    selftest.run(ctx, sys.modules[__name__])


def mutants():
    from ..selftest import TextMutant as T
    return [
        T("reject-svg-desc", "filters/sanitizer.py", "    (namespaces['svg'], 'desc'),\n", "", "R10.6"),
        T("text-unescaped", "serializer.py", "                    yield self.encode(escape(token[\"data\"]))", "                    yield self.encode(token[\"data\"])", "S1"),
        T("attr-amp-unescaped", "serializer.py", "                        v = v.replace(\"&\", \"&amp;\")\n", "", "Q4"),
        T("spec-class-no-gt", "serializer.py", "_quoteAttributeSpecChars = \"\".join(spaceCharacters) + \"\\\"'=<>`\"", "_quoteAttributeSpecChars = \"\".join(spaceCharacters) + \"\\\"'=<`\"", "Q2"),
        T("allow-style", "filters/sanitizer.py", "    (namespaces['html'], 'strong'),", "    (namespaces['html'], 'strong'),\n    (namespaces['html'], 'style'),", "R10.2"),
        T("allow-svg-script", "filters/sanitizer.py", "    (namespaces['html'], 'strong'),", "    (namespaces['html'], 'strong'),\n    (namespaces['svg'], 'script'),", "R10.2"),
        T("rcdata-add-pre", "constants.py", "rcdataElements = frozenset([\n    'style',", "rcdataElements = frozenset([\n    'pre',\n    'style',", "R10.2"),
        T("omission-before-sanitize", "serializer.py",
          "        if self.sanitize:\n            from .filters.sanitizer import Filter\n            treewalker = Filter(treewalker)\n        if self.omit_optional_tags:\n            from .filters.optionaltags import Filter\n            treewalker = Filter(treewalker)",
          "        if self.omit_optional_tags:\n            from .filters.optionaltags import Filter\n            treewalker = Filter(treewalker)\n        if self.sanitize:\n            from .filters.sanitizer import Filter\n            treewalker = Filter(treewalker)", "R10.3"),
        T("disallowed-stays-tag", "filters/sanitizer.py", "        token[\"type\"] = \"Characters\"\n\n        del token[\"name\"]", "        del token[\"name\"]", "R9.1"),
    ]


def preserving():
    return []
