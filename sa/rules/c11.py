"""C11 -- tree walkers emit a well-formed stream that reproduces the tree (predicates, vocabulary, shapes, stack pairing).

R11.1 VOID       the guard that selects EmptyTag and the guard that suppresses EndTag are complements over
                 namespace x name, and the Lint filter's guards agree with both
R11.2 VOCABULARY token kinds a walker produces for the node kinds of a parsed tree are handled by Lint, the
                 serializer, the SAX adapter and every filter
R11.3 DETAILS    both walkers' getNodeDetails return, per node kind, tuples of the arity __iter__ unpacks; attribute
                 keys are (namespace|None, local) pairs in both
R11.4 STACK      etree walker: every descent to element[0] is preceded by parents.append(element); the ascent from a
                 non-text cursor pops exactly once, the ascent from a text cursor does not pop
R11.5 TEXT       text() splits into leading white space, middle, trailing white space, emitting only non-empty parts
"""
from __future__ import annotations

import ast
import sys

from ..repo import AnalysisError, attr_chain, norm, walk_no_nested
from ..cfg import CFG, node_calls
from ..partition import MiniInterp, Opaque, FRESH

LEVEL = "other"
TECHNIQUE = ("boolean-function comparison of guards by branch partition; producer/consumer vocabulary agreement; tuple-shape "
             "agreement of sibling walkers; CFG pairing of the cursor stack; source evaluation (sa/classeval.py) of text() and of the DOM walker's getNodeDetails on a minidom model; reaching definitions of the has-children flag")
CLAIM = ('The void-element decision is one boolean function used consistently by the start side, the end side '
         'and the Lint filter (decided for every namespace class x name class); every token kind produced for '
         'parsed trees is understood by every consumer in the package; both walkers hand __iter__ tuples of '
         "the shapes it unpacks with attribute keys of the same form; the etree walker's ancestor stack is "
         'pushed before every descent and popped exactly once per ascent. text() yields leading HTML white '
         'space, text, trailing HTML white space as non-empty tokens for every sequence of character classes '
         'up to length 4; the {namespace}local splitter ends the namespace at the first closing brace.'
         ' An attribute key that reads as Clark notation comes out as a namespaced, possibly empty name (known finding, shared with C04). text() and the DOM walker\'s getNodeDetails are run from their source (on sample strings, on a model of a minidom element): whatever their shape, the tokens are leading HTML white space / text / trailing HTML white space, and an attribute without namespace keeps its whole name. The has-children flag that reaches emptyTag is the node\'s own. The ElementTree walker\'s getNodeDetails, run on element models, takes the namespace from between the first pair of braces (`}` may occur in names). On the way up the walker tests for its start node before it moves to a sibling or parent.')
NOT_DECIDED = ("the traversal itself (index arithmetic, tail handling, balance of start/end tags), rebuild equality, equality "
               "of the etree and dom streams.")
MODULES = ["treewalkers/base.py", "treewalkers/etree.py", "treewalkers/dom.py", "treewalkers/__init__.py", "filters/lint.py",
           "serializer.py", "treeadapters/sax.py", "constants.py", "treebuilders/etree.py", "treebuilders/etree_lxml.py"]
CORE_KINDS = ["Doctype", "Characters", "SpaceCharacters", "StartTag", "EndTag", "EmptyTag", "Comment"]


def _dom_details_whole(ctx, f, rel, qual):
    """getNodeDetails of the DOM walker run as a whole (sa/classeval.py) on a model of a minidom element: attributes as minidom
    stores them -- one set through setAttributeNS (namespace, prefix:local), two through setAttribute (no namespace; for a
    name with a colon minidom's localName is the part after it).  The attribute dict of the details must hold
    (namespace, local name) for the first and (None, *whole* name) for the others.  -> True (decided) / None (not evaluable)."""
    from ..classeval import ClassEval, Record
    r = ctx.r
    XL = "http://www.w3.org/1999/xlink"
    attrs = [Record(namespaceURI=XL, localName="href", name="xlink:href", nodeName="xlink:href", value="v1", nodeValue="v1", prefix="xlink"),
             Record(namespaceURI=None, localName="lang", name="xml:lang", nodeName="xml:lang", value="v2", nodeValue="v2", prefix=None),
             Record(namespaceURI=None, localName="title", name="title", nodeName="title", value="v3", nodeValue="v3", prefix=None)]
    by_name = {a.name: a for a in attrs}
    amap = Record(keys=lambda: [a.name for a in attrs], values=lambda: list(attrs), items=lambda: [(a.name, a.value) for a in attrs],
                  itemsNS=lambda: [((a.namespaceURI, a.localName), a.value) for a in attrs], keysNS=lambda: [(a.namespaceURI, a.localName) for a in attrs],
                  length=len(attrs), item=lambda i: attrs[i] if 0 <= i < len(attrs) else None,
                  get=lambda k, d=None: by_name[k].value if k in by_name else d)
    import xml.dom
    node = Record(nodeType=xml.dom.Node.ELEMENT_NODE, namespaceURI="http://www.w3.org/1999/xhtml", nodeName="p", tagName="p", localName="p", prefix=None,
                  attributes=amap, getAttributeNode=lambda n: by_name.get(n), getAttribute=lambda n: by_name[n].value if n in by_name else "",
                  getAttributeNodeNS=lambda ns, ln: next((a for a in attrs if a.namespaceURI == ns and a.localName == ln), None),
                  hasChildNodes=lambda: False, hasAttributes=lambda: True, childNodes=[])
    try:
        got = ClassEval(ctx.ce, f.module, f.cls, {}, repo=ctx.repo).call(f.name, [node])
    except AnalysisError as e:
        ctx.r.note("C11: DOM getNodeDetails not evaluable as a whole (%s)" % str(e)[:100])
        return None
    if not (isinstance(got, tuple) and len(got) == 5 and isinstance(got[3], dict)):
        return None
    want = {(XL, "href"): "v1", (None, "xml:lang"): "v2", (None, "title"): "v3"}
    r.check("R11.3", got[3] == want, "%s::attribute-keys" % rel, f.where,
            "%s reports the attributes {(xlink namespace) xlink:href, xml:lang, title} of a minidom element as %s; the tree holds %s: an "
            "attribute without namespace whose name contains a colon (xml:lang on an HTML element, v-bind:title) keeps its whole name, a "
            "namespaced one is keyed by (namespace, local name) -- otherwise the stream no longer reproduces the tree and differs from the "
            "other walker's" % (qual, sorted(got[3], key=repr), sorted(want, key=repr)), detail={"evaluated": "whole function on a minidom model"})
    r.check("R11.3", got[2] == "p" and got[1] == "http://www.w3.org/1999/xhtml" and got[4] is False, "%s::element-details" % rel, f.where,
            "%s reports (namespace, name, hasChildren) of <p> as %r" % (qual, (got[1], got[2], got[4])))
    return True


def _etree_details_whole(ctx, f, rel, qual):
    """getNodeDetails of the ElementTree walker run as a whole (sa/classeval.py) on models of ElementTree elements whose tag /
    attribute keys are written the way the tree builder writes them (Clark notation `{namespace}local`, or the plain name): the
    namespace is what stands between the *first* pair of braces, the name everything after it -- `}` is a legal character of
    a name the tokenizer produces (<p{{cls}}>, <b}>).  -> True (decided) / falsy (not evaluable: the shape rule decides)."""
    from ..classeval import ClassEval, SizedRecord
    r = ctx.r
    H, XL = "http://www.w3.org/1999/xhtml", "http://www.w3.org/1999/xlink"
    cases = [("{%s}p" % H, (H, "p")), ("{%s}p{{cls}}" % H, (H, "p{{cls}}")), ("{%s}b}" % H, (H, "b}")), ("p", (None, "p")), ("o:p", (None, "o:p"))]
    attrib = {"{%s}href" % XL: "v1", "xml:lang": "v2", "title": "v3", "a}b": "v4"}
    want_attrs = {(XL, "href"): "v1", (None, "xml:lang"): "v2", (None, "title"): "v3", (None, "a}b"): "v4"}
    bad = []
    try:
        for tag, (ns, name) in cases:
            node = SizedRecord(0, tag=tag, attrib=dict(attrib), text=None, tail=None, get=lambda k, d=None: None)
            got = ClassEval(ctx.ce, f.module, f.cls, {}, repo=ctx.repo, globals_override={"ElementTreeCommentType": "<function Comment>"}).call(f.name, [node])
            if not (isinstance(got, tuple) and len(got) == 5 and isinstance(got[3], dict)):
                return None
            if (got[1], got[2]) != (ns, name) or got[3] != want_attrs or bool(got[4]):
                bad.append((tag, (got[1], got[2]), sorted(got[3], key=repr)))
    except AnalysisError as e:
        ctx.r.note("C11: etree getNodeDetails not evaluable as a whole (%s)" % str(e)[:100])
        return None
    r.check("R11.3", not bad, "%s::attribute-keys" % rel, f.where,
            "%s reports the element tagged %r as %r with attribute keys %s; the tree holds namespace = the text between the first pair of "
            "braces, name = everything after it (`}` may occur in a name: <p{{cls}}>), attributes %s" % (
                qual, bad[0][0] if bad else "", bad[0][1] if bad else "", bad[0][2] if bad else "", sorted(want_attrs, key=repr)),
            detail={"evaluated": "whole function on ElementTree element models", "cases": len(cases)})
    return True


def _dom_attribute_keys_evaluated(ctx, f, rel, qual) -> bool:
    """R11.3 attribute-keys, DOM walker, by evaluation: the loop that fills the attribute dict is run on three representative
    minidom attribute nodes -- (namespace, local name, qualified name) -- and must produce the key the tree builder stored the
    attribute under: (namespace, local name) for a namespaced attribute, (None, *whole* name) for one without namespace."""
    from ..partition import MiniInterp, Opaque
    r = ctx.r
    whole = _dom_details_whole(ctx, f, rel, qual)
    if whole is not None:
        return whole
    loop = next((n for n in ast.walk(f.node) if isinstance(n, ast.For) and any(
        isinstance(a, ast.Assign) and isinstance(a.targets[0], ast.Subscript) and isinstance(a.targets[0].value, ast.Name) for a in ast.walk(n))), None)
    if loop is None:
        return False
    store = next(a for a in ast.walk(loop) if isinstance(a, ast.Assign) and isinstance(a.targets[0], ast.Subscript) and isinstance(a.targets[0].value, ast.Name))
    dname = store.targets[0].value.id
    var = norm(loop.target)
    reps = (("http://www.w3.org/1999/xlink", "href", "xlink:href", "xlink"), (None, "lang", "xml:lang", None), (None, "title", "title", None))
    results = []
    for ns, local, qname, prefix in reps:
        fields = {"namespaceURI": ns, "localName": local, "name": qname, "nodeName": qname, "value": "v", "nodeValue": "v", "prefix": prefix}

        def hook(node, local_env, fields=fields):
            if isinstance(node, ast.Attribute) and isinstance(node.value, ast.Name) and node.value.id == var and node.attr in fields and \
                    isinstance((local_env or {}).get(var), Opaque):
                return fields[node.attr]
            if isinstance(node, ast.Call) and norm(node.func).endswith((".getAttributeNode", ".getAttributeNodeNS", ".item")):
                return Opaque("attr-node")
            return NotImplemented
        init = ast.parse("%s = {}" % dname).body
        try:
            res = MiniInterp(ctx.ce, f.module, expr_hook=hook).run(init + loop.body, {var: Opaque("attr-node"), "node": Opaque("node"), "self": Opaque("self")})
        except AnalysisError:
            return False
        got = res.env.get(dname)
        if not isinstance(got, dict) or res.effects:
            return False
        results.append(((ns, local, qname), got, {(ns, local) if ns else (None, qname): "v"}))
    bad = [(rep, got, want) for rep, got, want in results if got != want]
    r.check("R11.3", not bad, "%s::attribute-keys" % rel, f.where,
            "%s reports the attribute %s as %s; the tree holds it as %s: an attribute without namespace whose name contains a colon "
            "(xml:lang on an HTML element, v-bind:title) must keep its whole name, a namespaced one is keyed by (namespace, local name) -- "
            "otherwise the stream no longer reproduces the tree and differs from the other walker's" % (
                qual, bad[0][0] if bad else "", sorted(bad[0][1]) if bad else "", sorted(bad[0][2]) if bad else ""),
            detail={"evaluated": [list(map(str, rep)) for rep, _, _ in results]})
    return True


def run(ctx):
    """The rules that stand on their own (R11.10 void children reported, R11.11 walk stays in the subtree) still get their say
    when an earlier rule cannot read the code: a violation they find is reported (sa/check.py), the rest stays undecided."""
    ctx._c11_tail_done = False
    try:
        _run(ctx)
    except AnalysisError:
        if not ctx._c11_tail_done:
            for fn in (void_children_reported, walk_stays_in_subtree):
                try:
                    fn(ctx)
                except AnalysisError:
                    pass
        raise


def _run(ctx):
    r = ctx.r
    ce, repo = ctx.ce, ctx.repo
    r.explanation = ("Guards of treewalkers/base.py and filters/lint.py are evaluated as boolean functions over namespace in "
                     "{None, '', html, other} x name in {void, non-void}; token-type chains of all consumers are partitioned "
                     "over the produced vocabulary; return tuples of both getNodeDetails are compared with __iter__'s unpacking; "
                     "the etree walker's parents stack is checked on the CFGs of getFirstChild/getNextSibling/getParentNode.")
    r.not_decided = NOT_DECIDED
    r.rule("R11.1", "EmptyTag guard == not(EndTag guard) == Lint's void guard, for every namespace/name class", floor=12)
    r.rule("R11.2", "every token kind produced for parsed trees is handled by every consumer", floor=20)
    r.rule("R11.3", "getNodeDetails tuple shapes of both walkers match what __iter__ unpacks; attribute keys are pairs", floor=12)
    r.rule("R11.4", "etree walker: push before each descent; exactly one pop per ascent from a non-text cursor", floor=4)
    r.rule("R11.5", "text() emits leading space / middle / trailing space, non-empty parts only, in order", floor=100)
    base = repo.module("treewalkers/base.py")
    it = repo.func("treewalkers/base.py", "NonRecursiveTreeWalker.__iter__")
    ns_map = ce.const("constants.py", "namespaces")
    void = ce.const("constants.py", "voidElements")
    html = ns_map["html"]

    # ---- R11.1
    from ..repo import inline_simple_calls
    import copy as _copy
    guards = []
    for n in ast.walk(it.node):
        if isinstance(n, ast.If):
            t = inline_simple_calls(base, n.test, cls=it.cls)
            if "voidElements" in norm(t):
                g = _copy.copy(n)
                g.test = t
                guards.append(g)
    if len(guards) != 2:
        # the test may go through a helper that is not a one-liner: the guards are then found by what they guard -- the innermost
        # `if` whose own body produces the EmptyTag tokens, and the innermost one whose body yields the EndTag
        def innermost(pred):
            found = [n for n in ast.walk(it.node) if isinstance(n, ast.If) and any(pred(c) for st in n.body for c in ast.walk(st) if isinstance(c, ast.Call))
                     and not any(isinstance(m, ast.If) and m is not n and any(pred(c) for st in m.body for c in ast.walk(st) if isinstance(c, ast.Call))
                                 for st in n.body for m in ast.walk(st))]
            return found
        ge = innermost(lambda c: norm(c.func) == "self.emptyTag")
        gn = innermost(lambda c: norm(c.func) == "self.endTag")
        if len(ge) == 1 and len(gn) == 1 and ge[0] is not gn[0]:
            guards = [ge[0], gn[0]]
    if len(guards) != 2:
        raise AnalysisError("NonRecursiveTreeWalker.__iter__: expected two void-element guards, found %d" % len(guards))
    g_empty = next((g for g in guards if any("emptyTag" in norm(c) for c in ast.walk(g) if isinstance(c, ast.Call))), None)
    g_end = next((g for g in guards if any("endTag" in norm(c) for c in ast.walk(g) if isinstance(c, ast.Call))), None)
    if g_empty is None or g_end is None:
        raise AnalysisError("void-element guards not recognised")
    lint = repo.func("filters/lint.py", "Filter.__iter__")
    lguards = [n for n in ast.walk(lint.node) if isinstance(n, ast.If) and "voidElements" in norm(n.test)]
    if len(lguards) != 2:
        raise AnalysisError("Lint: expected two void-element guards")
    bi = MiniInterp(ce, base)
    li = MiniInterp(ce, lint.module)
    for ns in (None, "", html, ns_map["svg"]):
        for name in ("br", "div", FRESH):
            env = {"namespace": ns, "name": name}
            e = bi.eval_guard(g_empty.test, env)
            d = bi.eval_guard(g_end.test, env)
            l1 = li.eval_guard(lguards[0].test, env)
            l2 = li.eval_guard(lguards[1].test, env)
            exp = (not ns or ns == html) and name in void
            key = "ns=%s name=%s" % ("None" if ns is None else repr(ns.rsplit("/", 1)[-1]), "<other>" if name == FRESH else name)
            r.check("R11.1", e == exp and d == (not exp) and l1 == exp and l2 == exp, key, it.where,
                    "void decision for %s: EmptyTag=%s, EndTag emitted=%s, Lint expects EmptyTag=%s / forbids EndTag=%s (void HTML "
                    "element: %s)" % (key, e, d, l1, l2, exp), detail={"case": key, "void_html_element": exp})
    # Lint asserts the right kinds in the two arms
    a1 = [norm(s) for s in lguards[0].body], [norm(s) for s in lguards[0].orelse]
    r.idiom("R11.1", a1 == (["assert type == 'EmptyTag'"], ["assert type == 'StartTag'"]), "lint-start-arms", lint.where,
            "Lint no longer requires EmptyTag for void and StartTag for other elements: %s" % (a1,))
    r.idiom("R11.1", any(isinstance(s, ast.Assert) and norm(s.test) == "False" for s in lguards[1].body), "lint-end-arm", lint.where,
            "Lint no longer rejects an EndTag for a void element")

    # ---- R11.2
    tw = repo.cls("treewalkers/base.py", "TreeWalker")
    produced = set()
    for mn, m in tw.methods.items():
        for n in ast.walk(m.node):
            if isinstance(n, ast.Dict):
                for k, v in zip(n.keys, n.values):
                    if isinstance(k, ast.Constant) and k.value == "type" and isinstance(v, ast.Constant):
                        produced.add(v.value)
    missing = set(CORE_KINDS) - produced
    r.check("R11.2", not missing, "produced-vocabulary", tw.where, "the walker base no longer produces %s" % sorted(missing),
            detail={"produced": sorted(produced)})
    consumers = [
        ("lint", repo.func("filters/lint.py", "Filter.__iter__"), "type"),
        ("serializer", repo.func("serializer.py", "HTMLSerializer.serialize"), "type"),
        ("sax", repo.func("treeadapters/sax.py", "to_sax"), "type"),
    ]
    for cname, f, var in consumers:
        loop = next((n for n in ast.walk(f.node) if isinstance(n, ast.For) and any(
            isinstance(s, ast.Assign) and norm(s.targets[0]) == var and norm(s.value).endswith("['type']") for s in n.body)), None)
        if loop is None:
            raise AnalysisError("%s: token loop not found" % cname)
        chain = next((s for s in loop.body if isinstance(s, ast.If) and norm(s.test).startswith(var)), None)
        if chain is None:
            raise AnalysisError("%s: token type chain not found" % cname)
        # find the final else arm
        cur = chain
        while len(cur.orelse) == 1 and isinstance(cur.orelse[0], ast.If):
            cur = cur.orelse[0]
        final_else = cur.orelse
        mi = MiniInterp(ce, f.module)
        for kind in CORE_KINDS:
            # walk the chain deciding only the type tests
            node, hit = chain, None
            while True:
                if mi.eval_guard(node.test, {var: kind}):
                    hit = node
                    break
                if len(node.orelse) == 1 and isinstance(node.orelse[0], ast.If):
                    node = node.orelse[0]
                else:
                    break
            r.check("R11.2", hit is not None, "%s handles %s" % (cname, kind), f.where,
                    "%s has no arm for %s tokens: they fall into the error arm" % (cname, kind), detail={"consumer": cname, "kind": kind})
    # filters: non-handled kinds are passed on (their loops end with an unconditional yield) -- checked per filter in C13/C17/C18/C09
    # observation: error-token spelling
    if "SerializeError" in produced:
        lint_src = norm(lint.node)
        if "'SerializerError'" in lint_src and "'SerializeError'" not in lint_src:
            r.note("observation (outside C11's statement for parsed trees): walkers produce 'SerializeError' tokens, the Lint "
                   "filter accepts 'SerializerError'")

    # ---- R11.3
    expect = {"DOCTYPE": (2, 4), "TEXT": (2, 2), "ELEMENT": (5, 5), "COMMENT": (2, 2), "DOCUMENT": (1, 1), "UNKNOWN": (2, 2)}
    # what __iter__ unpacks
    unpack = [n for n in ast.walk(it.node) if isinstance(n, ast.Assign) and isinstance(n.targets[0], ast.Tuple)
              and norm(n.value) == "details" and len(n.targets[0].elts) == 4]
    r.idiom("R11.3", len(unpack) == 2 and all([e.id for e in u.targets[0].elts] == ["namespace", "name", "attributes", "hasChildren"]
                                             for u in unpack), "iter-unpacks-element", it.where,
            "__iter__ no longer unpacks element details as (namespace, name, attributes, hasChildren)")
    for rel, qual in (("treewalkers/dom.py", "TreeWalker.getNodeDetails"), ("treewalkers/etree.py", "getETreeBuilder.TreeWalker.getNodeDetails")):
        f = repo.func(rel, qual)
        kinds_seen = set()
        for n in ast.walk(f.node):
            if isinstance(n, ast.Return) and isinstance(n.value, ast.Tuple) and n.value.elts:
                head = norm(n.value.elts[0])
                if head.startswith("base."):
                    kind = head[5:]
                    kinds_seen.add(kind)
                    lo, hi = expect.get(kind, (None, None))
                    ar = len(n.value.elts)
                    r.check("R11.3", lo is not None and lo <= ar <= hi, "%s::%s arity" % (rel, kind), "%s:%d" % (rel, n.lineno),
                            "%s returns %d components for %s; __iter__ expects %s" % (qual, ar, kind, (lo, hi)),
                            detail={"walker": rel, "kind": kind, "arity": ar})
                    if kind == "ELEMENT" and rel.endswith("dom.py") and ar >= 3:
                        nm = norm(n.value.elts[2])
                        # the parser never splits a tag name at a colon: <o:p> is an HTML element called "o:p"; DOM's localName is "p"
                        r.idiom("R11.3", nm.endswith(".nodeName") or nm.endswith(".tagName"), "%s::element-name" % rel, "%s:%d" % (rel, n.lineno),
                                "the DOM walker's element name `%s` was not recognised" % nm,
                                wrong=[(nm.endswith(".localName"),
                                        "the DOM walker reports an element's localName: tag names that contain a colon (<o:p>, <st1:place>, "
                                        "<rdf:RDF>) lose their prefix, the rebuilt tree differs and the two walkers disagree")],
                                detail={"name_expr": nm})
        need = {"DOCTYPE", "TEXT", "ELEMENT", "COMMENT", "DOCUMENT"}
        r.check("R11.3", need <= kinds_seen, "%s::kinds" % rel, f.where, "%s does not report node kinds %s" % (qual, sorted(need - kinds_seen)))
        if rel.endswith("dom.py") and _dom_attribute_keys_evaluated(ctx, f, rel, qual):
            continue
        if rel.endswith("etree.py") and _etree_details_whole(ctx, f, rel, qual):
            continue
        keys = [n.targets[0].slice for n in ast.walk(f.node) if isinstance(n, ast.Assign) and isinstance(n.targets[0], ast.Subscript)
                and norm(n.targets[0].value) == "attrs"]
        shape_ok = len(keys) >= 1 and all(isinstance(k, ast.Tuple) and len(k.elts) == 2 for k in keys)
        local_ok = shape_ok and not any("qualified" in norm(k).lower() or norm(k.elts[1]).endswith(".name") and norm(k.elts[0]) != "None" for k in keys)
        r.idiom("R11.3", len(keys) == 2 and shape_ok and local_ok and any(norm(k.elts[0]) == "None" for k in keys),
                "%s::attribute-keys" % rel, f.where,
                "%s does not key attributes by (namespace|None, local name) pairs: %s" % (qual, [norm(k) for k in keys]),
                wrong=[(bool(keys) and all(isinstance(k, ast.Tuple) for k in keys) and not shape_ok, None), (shape_ok and not local_ok, None),
                       (shape_ok and any("None" in norm(k.elts[0]) and norm(k.elts[1]).endswith(".localName") for k in keys),
                        "%s keys an attribute without namespace by its *local* name: an un-namespaced attribute whose name contains a "
                        "colon (xml:lang on an HTML element, v-bind:title) is reported as (None, 'lang') / (None, 'title'); the stream no "
                        "longer reproduces the tree and differs from the other walker's" % qual)])

    # ---- R11.4
    et = "treewalkers/etree.py"
    for q in ("getETreeBuilder.TreeWalker.getFirstChild", "getETreeBuilder.TreeWalker.getNextSibling"):
        f = repo.func(et, q)
        cfg = CFG(f.node)
        desc = [n for n in cfg.stmt_nodes() if n.kind == "stmt" and isinstance(n.ast, ast.Return) and isinstance(n.ast.value, ast.Tuple)
                and norm(n.ast.value.elts[0]) == "element[0]"]
        if len(desc) != 1:
            raise AnalysisError("%s: descent `return element[0], 0, parents, None` not found" % q)
        bad = cfg.must_precede(desc, lambda n: any(norm(c) == "parents.append(element)" for c in node_calls(n)))
        r.check("R11.4", not bad, "%s::push-before-descent" % q.rsplit(".", 1)[1], "%s:%d" % (et, desc[0].lineno),
                "%s descends into element[0] without pushing the element on the ancestor stack" % q)
        pushes = [n for n in cfg.stmt_nodes() if any(norm(c) == "parents.append(element)" for c in node_calls(n))]
        r.idiom("R11.4", len(pushes) == 1, "%s::single-push" % q.rsplit(".", 1)[1], f.where, "%s pushes %d times" % (q, len(pushes)),
                wrong=[(len(pushes) > 1 and not cfg.must_precede(pushes[1:], lambda n: n is pushes[0]), None)])
    gp = repo.func(et, "getETreeBuilder.TreeWalker.getParentNode")
    cfg = CFG(gp.node)
    pops = [n for n in cfg.stmt_nodes() if any(norm(c) == "parents.pop()" for c in node_calls(n))]
    text_test = lambda n, lab: n.kind == "test" and norm(n.ast) == "flag == 'text'" and lab is True  # noqa: E731
    ok = len(pops) == 1 and cfg.dominated_by(pops[0], lambda n, lab: n.kind == "test" and norm(n.ast) == "flag == 'text'" and lab is False)
    r.check("R11.4", ok, "getParentNode::one-pop-non-text", gp.where,
            "the ascent from a non-text cursor does not pop the ancestor stack exactly once (pops: %d)" % len(pops))
    text_rets = [n for n in cfg.stmt_nodes() if n.kind == "stmt" and isinstance(n.ast, ast.Return) and cfg.dominated_by(n, text_test)]
    no_pop_on_text = all(cfg.must_precede([t], lambda n: n in pops) for t in text_rets) if text_rets else False
    r.check("R11.4", bool(text_rets) and no_pop_on_text, "getParentNode::no-pop-from-text", gp.where,
            "the ascent from a text cursor pops the ancestor stack (the element was never pushed for it)")

    # ---- R11.5  decided by evaluating text() on representative strings
    tx = repo.func("treewalkers/base.py", "TreeWalker.text")
    dparam = tx.params()[1]
    HTML_WS = "\t\n\x0c\r "
    # abstract domain: text() handles its argument only through lstrip/rstrip(spaceCharacters), len and slicing, so a string is
    # characterised by its sequence of character classes {HTML white space, other Unicode white space, anything else}; every
    # class sequence of length <= 4 is decided, plus one string per remaining member of each class
    import itertools
    samples = ["".join(p) for n_ in range(0, 5) for p in itertools.product(" \x0ba", repeat=n_)]
    samples += ["\t", "\n", "\x0c", "\r", "\r\n\x0c x\t", "\u00a0a\u2003", "\x1c a \x85"]
    from ..classeval import ClassEval
    n_eval = 0
    for smp in samples:
        key = "text[%r]" % smp
        try:
            evl = ClassEval(ce, base, tx.cls, {}, repo=repo)
            evl.call("text", [smp])
            out_tokens = evl.yielded
            n_eval += 1
        except Exception as e:      # noqa: BLE001 -- not evaluable: no verdict
            r.idiom("R11.5", False, key, tx.where, "text() is not evaluable on %r (%s)" % (smp, str(e)[:80]))
            continue
        lead = smp[:len(smp) - len(smp.lstrip(HTML_WS))]
        rest = smp[len(lead):]
        mid = rest.rstrip(HTML_WS)
        trail = rest[len(mid):]
        exp = [{"type": t, "data": d} for t, d in (("SpaceCharacters", lead), ("Characters", mid), ("SpaceCharacters", trail)) if d]
        r.check("R11.5", out_tokens == exp, key, tx.where,
                "text(%r) yields %s; expected leading HTML white space, text, trailing HTML white space as non-empty tokens: %s"
                % (smp, out_tokens, exp), detail={"input": smp, "tokens": out_tokens})
    try:
        sc = ce.const("treewalkers/base.py", "spaceCharacters")
    except AnalysisError:
        sc = None          # no such table (any more): the evaluation above is the verdict
        if n_eval < len(samples):
            raise
    if sc is not None:
        r.check("R11.5", set(sc) == set("\t\n\x0c\r "), "space-set", "treewalkers/base.py", "walker white space is %r" % sc)
    clark_names(ctx)
    void_agreement(ctx)
    ctx._c11_tail_done = True
    void_children_reported(ctx)
    walk_stays_in_subtree(ctx)
    from . import wslint
    wslint.run(ctx, "R11.8")
    # R11.9: the etree walker splits every attribute key with the Clark-notation pattern; a plain name the builder stored
    # verbatim that begins with `{..}` comes out as a namespaced (possibly empty) name, which Lint rejects
    from .c04 import representation_limits
    representation_limits(ctx, None, "R11.9")


def void_children_reported(ctx):
    """R11.10: a void element that has children in the tree (the parser makes some: <event-source>x) is written as an EmptyTag and
    an error token reports that its content is dropped.  emptyTag() is told whether there are children by its last argument: the
    value that reaches the call is the one unpacked from the node's details, not one the walker has already reset (the reset,
    which stops the descent, comes after the call)."""
    r = ctx.r
    r.rule("R11.10", "the has-children flag given to emptyTag is the node's own, not an already reset one", floor=1)
    it = ctx.repo.func("treewalkers/base.py", "NonRecursiveTreeWalker.__iter__")
    cfg = CFG(it.node)
    calls = [c for c in ast.walk(it.node) if isinstance(c, ast.Call) and norm(c.func) == "self.emptyTag"]
    if len(calls) != 1:
        r.idiom("R11.10", False, "emptyTag-flag", it.where, "the emptyTag call of the walker loop was not found")
        return
    c = calls[0]
    arg = c.args[3] if len(c.args) >= 4 else next((k.value for k in c.keywords if k.arg == "hasChildren"), None)
    if not isinstance(arg, ast.Name):
        r.idiom("R11.10", False, "emptyTag-flag", "treewalkers/base.py:%d" % c.lineno, "the has-children argument of emptyTag is not a local",
                wrong=[(arg is None or (isinstance(arg, ast.Constant) and arg.value is False),
                        "emptyTag is called without the has-children flag (or with a constant False): a void element with children is dropped "
                        "silently, no error token is produced")])
        return
    v = arg.id
    sites = cfg.locate(c)

    def stores_v(n):
        return n.kind in ("stmt", "loopiter") and any(isinstance(x, ast.Name) and x.id == v and isinstance(x.ctx, ast.Store) for x in ast.walk(n.ast)
                                                     if not isinstance(x, (ast.FunctionDef, ast.Lambda)))
    par = cfg.reach_backward(sites, stores_v)
    # the stores that reach the call: predecessors of the explored region that store v
    reaching = []
    seen = set(par) | {s_.id for s_ in sites}
    for n in cfg.nodes:
        if stores_v(n) and any(m.id in seen for m, _lab in n.succ):
            reaching.append(n)
    consts = [n for n in reaching if isinstance(n.ast, ast.Assign) and isinstance(n.ast.value, ast.Constant)]
    unpack = [n for n in reaching if isinstance(n.ast, ast.Assign) and isinstance(n.ast.targets[0], (ast.Tuple, ast.List)) and "details" in norm(n.ast.value)]
    r.idiom("R11.10", bool(unpack) and len(unpack) == len(reaching), "emptyTag-flag", "treewalkers/base.py:%d" % c.lineno,
            "what reaches the has-children argument of emptyTag was not recognised: %s" % [norm(n.ast)[:50] for n in reaching],
            wrong=[(bool(consts), "`%s` reaches the emptyTag call already reset (`%s`): the \"Void element has children\" error token is never "
                                  "produced, the children of a void element (<event-source>text) are dropped without any report" % (
                                      v, norm(consts[0].ast) if consts else ""))],
            detail={"reaching": [norm(n.ast)[:60] for n in reaching]})


def walk_stays_in_subtree(ctx):
    """R11.11: the walk covers the subtree of the node it was started on and nothing else: on the way up, whether the current
    node *is* the start node is tested before its next sibling is asked for (a walker started on an inner node, or on a root
    that has siblings, would otherwise run on into the siblings and emit end tags for ancestors it never opened)."""
    r = ctx.r
    r.rule("R11.11", "the ascent tests for the start node before it moves to a sibling or a parent", floor=1)
    it = ctx.repo.func("treewalkers/base.py", "NonRecursiveTreeWalker.__iter__")
    cfg = CFG(it.node)
    moves = [n for n in cfg.stmt_nodes() if any(norm(c.func) in ("self.getNextSibling", "self.getParentNode") for c in node_calls(n))]

    def is_start_test(n, lab):
        if n.kind != "test":
            return False
        t = norm(n.ast)
        if t in ("self.tree is currentNode", "currentNode is self.tree", "self.tree == currentNode", "currentNode == self.tree"):
            return lab is False
        if t in ("self.tree is not currentNode", "currentNode is not self.tree", "self.tree != currentNode", "currentNode != self.tree"):
            return lab is True
        return False
    if not moves:
        r.idiom("R11.11", False, "start-node-test-first", it.where, "the sibling / parent moves of the walker loop were not found")
        return
    bad = [n for n in moves if not cfg.dominated_by(n, is_start_test)]
    has_test = any(is_start_test(n, True) or is_start_test(n, False) for n in cfg.nodes)
    r.idiom("R11.11", not bad, "start-node-test-first", "treewalkers/base.py:%d" % (bad[0].lineno if bad else it.node.lineno),
            "the walker's start-node test was not recognised",
            wrong=[(bool(bad) and has_test,
                    "`%s` can be reached without the test that the current node is the node the walk started on: a walk started on an element "
                    "that has a following sibling (an inner node; the root element when a comment follows </html> in a DOM tree) runs on "
                    "into the siblings and then emits end tags for ancestors that were never opened" % (norm(bad[0].ast)[:60] if bad else ""))],
            detail={"moves": len(moves)})


def void_agreement(ctx):
    """R11.7: the walkers write an element as a single EmptyTag token iff its name is in constants.voidElements, and report an
    error token when such an element has children.  The parser therefore has to treat every one of these names as void: the
    start-tag handler that inserts the element pops it again before returning (so it can never get children)."""
    from .c01 import model
    r = ctx.r
    r.rule("R11.7", "every name in voidElements is handled as a void element by the parser (inserted and popped at once)", floor=14)
    pm = model(ctx)
    void = sorted(ctx.ce.const("constants.py", "voidElements"))
    phases_for = {"col": "inColumnGroup"}
    for name in void:
        cls = pm.phases[phases_for.get(name, "inBody")]
        h, how = pm.handler(cls, "StartTag", name)
        if h is None:
            r.bad("R11.7", "parser-void::%s" % name, cls.where, "no start-tag handler for <%s>" % name)
            continue
        nodes, edges, sites = pm.build_graph([(h, name)])
        funcs = {f.fq: f for f, n_ in nodes.values()}
        # some reachable function inserts the token's element and pops it on every path afterwards
        popped = False
        inserts = False
        for f in funcs.values():
            ins = [c for c in walk_no_nested(f.node) if isinstance(c, ast.Call) and (attr_chain(c.func) or [""])[-1] == "insertElement"]
            if not ins:
                continue
            inserts = True
            cfg = CFG(f.node)
            for c in ins:
                loc = cfg.locate(c)
                if loc and not cfg.must_follow(loc, lambda x: any(
                        (attr_chain(cc.func) or [""])[-2:] == ["openElements", "pop"] for cc in node_calls(x))):
                    popped = True
        ignored = not inserts          # the start tag is ignored in this mode: no element, no children
        r.check("R11.7", popped or ignored, "parser-void::%s" % name, h.where,
                "<%s> is in constants.voidElements (the tree walkers write it as an EmptyTag and report an error token if it has "
                "children) but the parser handles its start tag with %s, which leaves it open: `<%s>x` gives the element a child, the "
                "walker emits a SerializeError token, Lint rejects the stream and to_sax raises" % (name, h.qual, name),
                {"element": name, "handler": h.qual}, detail={"element": name, "handler": h.qual, "how": how})


def clark_names(ctx):
    """R11.6: ElementTree stores qualified names as {namespace}local.  The pattern that splits them must end the namespace at
    the *first* `}` (a namespace IRI cannot contain one, a local name produced by the tokenizer can), in the walkers and in
    the builders' serializers alike."""
    import re._parser as sp
    r = ctx.r
    r.rule("R11.6", "the {namespace}local splitter ends the namespace at the first closing brace", floor=2)
    n = 0
    for rel in ("treewalkers/etree.py", "treebuilders/etree.py", "treebuilders/etree_lxml.py"):
        try:
            mod = ctx.repo.module(rel)
        except AnalysisError:
            continue
        for st in mod.tree.body:
            if isinstance(st, ast.Assign) and norm(st.targets[0]) == "tag_regexp" and isinstance(st.value, ast.Call) and st.value.args:
                pat = ctx.ce.try_eval(st.value.args[0], mod)
                if not isinstance(pat, str):
                    continue
                n += 1
                parsed = list(sp.parse(pat))
                key = "clark-split::%s" % rel
                where = "%s:%d" % (rel, st.lineno)
                shape = len(parsed) == 4 and parsed[0] == (sp.LITERAL, ord("{")) and parsed[1][0] == sp.SUBPATTERN and \
                    parsed[2] == (sp.LITERAL, ord("}")) and parsed[3][0] == sp.SUBPATTERN
                if not shape:
                    r.idiom("R11.6", False, key, where, "tag_regexp %r is not {(..)}(..)" % pat)
                    continue
                g1 = list(parsed[1][1][3])
                ok = wrong = False
                if len(g1) == 1 and g1[0][0] in (sp.MAX_REPEAT, sp.MIN_REPEAT):
                    item = list(g1[0][1][2])
                    if len(item) == 1 and item[0][0] == sp.IN:
                        cls = item[0][1]
                        ok = cls[0] == (sp.NEGATE, None) and (sp.LITERAL, ord("}")) in cls
                    elif len(item) == 1 and item[0] == (sp.NOT_LITERAL, ord("}")):
                        ok = True
                    elif len(item) == 1 and item[0][0] == sp.ANY:
                        ok = g1[0][0] == sp.MIN_REPEAT          # lazy .*? also stops at the first brace
                        wrong = not ok
                r.idiom("R11.6", ok, key, where, "tag_regexp %r: namespace group not recognised" % pat,
                        wrong=[(wrong, "%s: tag_regexp %r matches the namespace greedily: for an element or attribute whose local name "
                                       "contains `}` (e.g. <x}y>, stored as {ns}x}y) the name is split at the last brace and the walker "
                                       "reports namespace `ns}x`, name `y`" % (rel, pat))],
                        detail={"pattern": pat})
    if n < 2:
        raise AnalysisError("R11.6: found %d tag_regexp definitions (expected >= 2)" % n)


def thorough(ctx):
    from .. import selftest
    selftest.run(ctx, sys.modules[__name__])


def mutants():
    from ..selftest import TextMutant as T
    B = "treewalkers/base.py"
    E = "treewalkers/etree.py"
    return [
        T("start-node-test-after-sibling", "treewalkers/base.py", "                    if self.tree is currentNode:\n                        currentNode = None\n                        break\n                    nextSibling = self.getNextSibling(currentNode)\n                    if nextSibling is not None:\n                        currentNode = nextSibling\n                        break\n                    else:",
          "                    nextSibling = self.getNextSibling(currentNode)\n                    if nextSibling is not None:\n                        currentNode = nextSibling\n                        break\n                    elif self.tree is currentNode:\n                        currentNode = None\n                    else:", "R11.11"),
        T("dom-attr-localname", "treewalkers/dom.py", "                if attr.namespaceURI:\n                    attrs[(attr.namespaceURI, attr.localName)] = attr.value\n                else:\n                    attrs[(None, attr.name)] = attr.value", "                attrs[(attr.namespaceURI or None, attr.localName)] = attr.value", "R11.3"),
        T("void-adds-keygen-unhandled", "constants.py", "    \"wbr\",\n])", "    \"wbr\",\n    \"spacer\",\n])", "R11.7"),
        T("clark-greedy-walker", "treewalkers/etree.py", 'tag_regexp = re.compile("{([^}]*)}(.*)")', 'tag_regexp = re.compile("{(.*)}(.*)")', "R11.6"),
        T("clark-greedy-builder", "treebuilders/etree.py", 'tag_regexp = re.compile("{([^}]*)}(.*)")', 'tag_regexp = re.compile("{(.+)}(.*)")', "R11.6"),
        T("void-any-namespace", B, "                if (not namespace or namespace == namespaces[\"html\"]) and name in voidElements:\n                    for token in self.emptyTag(",
          "                if name in voidElements:\n                    for token in self.emptyTag(", "R11.1"),
        T("end-guard-drift", B, "                        if (namespace and namespace != namespaces[\"html\"]) or name not in voidElements:",
          "                        if name not in voidElements:", "R11.1"),
        T("lint-drift", "filters/lint.py", "                if (not namespace or namespace == namespaces[\"html\"]) and name in voidElements:\n                    assert type == \"EmptyTag\"",
          "                if name in voidElements:\n                    assert type == \"EmptyTag\"", "R11.1"),
        T("sax-no-space", "treeadapters/sax.py", "        elif type in (\"Characters\", \"SpaceCharacters\"):", "        elif type == \"Characters\":", "R11.2"),
        T("dom-element-arity", "treewalkers/dom.py", "            return (base.ELEMENT, node.namespaceURI, node.nodeName,\n                    attrs, node.hasChildNodes())",
          "            return (base.ELEMENT, node.namespaceURI, node.nodeName,\n                    attrs)", "R11.3"),
        T("dom-attr-key", "treewalkers/dom.py", "                    attrs[(None, attr.name)] = attr.value", "                    attrs[attr.name] = attr.value", "R11.3"),
        T("no-push", E, "                elif len(element):\n                    parents.append(element)\n                    return element[0], 0, parents, None\n                else:\n                    return None\n\n        def getNextSibling",
          "                elif len(element):\n                    return element[0], 0, parents, None\n                else:\n                    return None\n\n        def getNextSibling", "R11.4"),
        T("pop-from-text", E, "            if flag == \"text\":\n                if not parents:\n                    return element",
          "            if flag == \"text\":\n                parents.pop()\n                if not parents:\n                    return element", "R11.4"),
        T("text-empty-token", B, "        if right:\n            yield {\"type\": \"SpaceCharacters\", \"data\": right}", "        yield {\"type\": \"SpaceCharacters\", \"data\": right}", "R11.5"),
    ]


def preserving():
    from ..selftest import TextMutant as T
    return [
        T("demorgan", "treewalkers/base.py", "                        if (namespace and namespace != namespaces[\"html\"]) or name not in voidElements:",
          "                        if not ((not namespace or namespace == namespaces[\"html\"]) and name in voidElements):", None),
    ]
