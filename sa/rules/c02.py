"""C02 -- tokenizer output equals the WHATWG tokenization (transition relation, not the stream).

C02.1 TOTALITY    the model classifies every (state, atom[, abstraction]) cell
C02.2 REFERENCE   translation validation: macro-steps of the extracted model == macro-steps of the transcribed standard
C02.3 BULK        every charsUntil() bulk read swallows only characters that the same state would handle identically
C02.4 LOOKAHEAD   keyword recognisers (--, DOCTYPE, PUBLIC, SYSTEM, [CDATA[) and their failure paths
C02.5 APPROPRIATE end-tag-name states compare the last start tag name with the buffer case-insensitively, need a token
C02.6 EMISSION    names lower-cased at emission / on leaving the name state; duplicate attributes: first wins
C02.7 CONTENT     element -> tokenizer state map of the parser (shared with C01)
"""
from __future__ import annotations

import ast
import sys

from ..repo import AnalysisError, norm, walk_no_nested
from ..partition import ATOMS, atom_name, NONASCII
from ..tokmodel import TokenizerModel, REL
from ..data import whatwg_tokenizer as W

LEVEL = "translation_validation"
TECHNIQUE = ("extraction of a total transition table (66 state programs x 130 character atoms) by branch partition, and "
             "cell-by-cell comparison of its reconsume-closed macro-steps with a hand-transcribed WHATWG table")
CLAIM = ('Each tokenizer state method is translated into (atom -> ops, next state, reconsume); after closing '
         "over reconsume chains, every cell's token-visible effect must equal the transcribed standard's "
         '(parse errors are not compared; adjacent character tokens merged; case folding compared case- '
         'insensitively with C02.6 checking that emission lower-cases). Bulk reads, keyword look-ahead, '
         'appropriate-end-tag matching and duplicate-attribute resolution, the double-escape `script` tests, '
         "the CDATA terminator and the entity trie's longest-prefix candidate sequence are checked separately. "
         'This decides the transition relation for all states and characters, which no test samples.'
         " The CDATA guard compares the current node's namespace with the tree's default namespace, not with a constant.")
NOT_DECIDED = ("newline normalisation and surrogate handling in the input stream (C05), correctness of the entity trie's "
               "search (C14 covers the tables), token positions, the character-reference sub-algorithm beyond C14's clauses.")
MODULES = ["_tokenizer.py", "constants.py", "html5parser.py", "_trie/_base.py", "_trie/py.py", "_trie/__init__.py"]

WS_SET = frozenset("\t\n\x0c ")       # CR never reaches the tokenizer (input stream normalisation)
NAMEISH = ("name", "attrname")


def tokmodel(ctx) -> TokenizerModel:
    return ctx.shared("tokmodel", lambda: TokenizerModel(ctx.repo, ctx.ce))


def short(s):
    if s is None:
        return None
    return s[:-5] if s.endswith("State") else s


# ---------------------------------------------------------------------------- normalisation
def _strip_bulk(text):
    out = []
    for p in text:
        if isinstance(p, tuple) and p and p[0] == "bulk":
            continue
        if isinstance(p, tuple) and p and p[0] == "tmpbuf":
            p = W.TMP
        if out and isinstance(out[-1], str) and isinstance(p, str):
            out[-1] += p
        else:
            out.append(p)
    return "".join(out)


def norm_impl_ops(ops):
    out = []
    for o in ops:
        k = o[0]
        if k in ("error", "attr-dupcheck", "lowercase", "skip", "unget"):
            continue
        if k == "emit":
            t = _strip_bulk(o[1])
            if t:
                out.append(("emit", t))
        elif k == "new":
            kind, fields = o[1], dict(o[2])
            out.append(("new", kind))
            nm = fields.get("name")
            if nm not in (None, (), ""):
                out.append(("append", "name", _strip_bulk(nm).lower()))
        elif k == "append":
            t = _strip_bulk(o[2])
            out.append(("append", o[1], t.lower() if o[1] in NAMEISH else t))
        elif k == "set":
            v = o[2]
            if isinstance(v, tuple):
                v = _strip_bulk(v)
            if o[1] == "name" and isinstance(v, str):
                v = v.lower()
            out.append(("set", o[1], v))
        elif k == "newattr":
            out.append(("newattr", _strip_bulk(o[1]).lower()))
        elif k in ("emit-token", "emit-tag"):
            out.append(("emit-token",))
        elif k == "tmpbuf-set":
            out.append(("tmp-set", _strip_bulk(o[1]).lower()))
        elif k == "tmpbuf-append":
            out.append(("tmp-append", _strip_bulk(o[1]).lower()))
        elif k == "charref":
            out.append(o)
        else:
            out.append(o)
    return out


def norm_ref_ops(ops, atom):
    out = []
    cur = atom if isinstance(atom, str) else ""
    for o in ops:
        o = tuple(x.replace(W.CUR, cur) if isinstance(x, str) else x for x in o)
        k = o[0]
        if k == "emit":
            if o[1]:
                out.append(o)
        elif k == "append":
            out.append(("append", o[1], o[2].lower() if o[1] in NAMEISH else o[2]))
        elif k == "set" and o[1] == "name":
            out.append(("set", "name", o[2].lower()))
        elif k in ("newattr", "tmp-set", "tmp-append"):
            out.append((k, o[1].lower()))
        else:
            out.append(o)
    return out


def merge_emits(ops):
    out = []
    for o in ops:
        if o[0] == "emit" and out and out[-1][0] == "emit":
            out[-1] = ("emit", out[-1][1] + o[1])
        else:
            out.append(o)
    return out


def canon(ops):
    """merge adjacent character emissions; temporary-buffer updates commute with emissions that do not read the
    buffer, so they are moved to the front"""
    if not any(o[0] == "emit" and W.TMP in o[1] for o in ops):
        ops = [o for o in ops if o[0].startswith("tmp-")] + [o for o in ops if not o[0].startswith("tmp-")]
    return merge_emits(ops)


def ref_class_of(table, atom):
    """the arm of a reference state for an atom"""
    def matches(key):
        keys = key if isinstance(key, tuple) else (key,)
        for k in keys:
            if k == W.EOF:
                if atom is None:
                    return 3
            elif k == W.NUL:
                if atom == "\x00":
                    return 3
            elif k == W.WS:
                if isinstance(atom, str) and atom in "\t\n\x0c\r ":
                    return 2
            elif k == W.UPPER:
                if isinstance(atom, str) and "A" <= atom <= "Z":
                    return 2
            elif k == W.LOWER:
                if isinstance(atom, str) and "a" <= atom <= "z":
                    return 2
            elif k == W.ALPHA:
                if isinstance(atom, str) and (("A" <= atom <= "Z") or ("a" <= atom <= "z")):
                    return 2
            elif k == W.ELSE:
                continue
            elif isinstance(atom, str) and atom in k:
                return 3
        return 0
    best, best_score = None, 0
    for key, armv in table.items():
        sc = matches(key)
        if sc > best_score:
            best, best_score = armv, sc
    if best is None:
        best = table.get(W.ELSE)
    return best


def ref_state(name, combo_dict):
    if name in W.STATES:
        return W.STATES[name]
    for d, v in combo_dict.items():
        k = (name, (d, v))
        if k in W.STATES:
            return W.STATES[k]
    return None


def tmp_empty_on_entry(tm):
    """states every transition into which has just set the temporary buffer to the empty string: there
    `buffer = X` and `append X to buffer` are the same operation"""
    def build():
        incoming = {}
        for (s, atom, combo), a in tm.arms.items():
            if a.next and a.next != s:
                tmps = [o for o in a.ops if o[0] in ("tmpbuf-set", "tmpbuf-append")]
                ok = bool(tmps) and tmps[-1] == ("tmpbuf-set", ())
                incoming.setdefault(a.next, []).append(ok)
        return {s for s, oks in incoming.items() if oks and all(oks)}
    if not hasattr(tm, "_tmp_empty"):
        tm._tmp_empty = build()
    return tm._tmp_empty


def macro_impl(tm, sname, atom, combo, limit=8):
    ops, cur, cm = [], sname, combo
    for _ in range(limit):
        a = tm.arm(cur, atom, cm)
        nops = norm_impl_ops(a.ops)
        if cur in tmp_empty_on_entry(tm):
            nops = [("tmp-append", o[1]) if o[0] == "tmp-set" else o for o in nops]
        ops += nops
        nxt = a.next or cur
        if a.stop:
            return canon(ops), short(nxt), True, False
        if not a.unget and atom is not None:
            return canon(ops), short(nxt), False, False
        # EOF is never consumed by the stream (unget(EOF) is a no-op and char() keeps returning it): every EOF arm
        # that does not stop tokenization is followed by the next state's EOF arm
        # reconsume in nxt
        if nxt in tm.irregular or tm.dims.get(nxt) or not tm.reads_char(nxt):
            return canon(ops), short(nxt), False, True
        cur, cm = nxt, ()
    raise AnalysisError("reconsume chain from %s on %s does not end" % (sname, atom_name(atom)))


def macro_ref(sname, atom, combo_dict, limit=8):
    ops, cur, cd = [], sname, combo_dict
    for _ in range(limit):
        table = ref_state(cur, cd)
        if table is None:
            raise AnalysisError("reference has no state %s" % cur)
        a = ref_class_of(table, atom)
        if a == "KEYWORD":
            return "KEYWORD"
        ops += norm_ref_ops(a["ops"], atom)
        nxt = a["to"] or cur
        if a["stop"]:
            return canon(ops), nxt, True, False
        if not a["re"] and atom is not None:
            return canon(ops), nxt, False, False
        if nxt in W.SPECIAL or any(isinstance(k, tuple) and k[0] == nxt for k in W.STATES if isinstance(k, tuple) and len(k) == 2
                                   and isinstance(k[1], tuple)):
            return canon(ops), nxt, False, True
        cur, cd = nxt, {}
    raise AnalysisError("reference reconsume chain from %s does not end" % sname)


# ---------------------------------------------------------------------------- rules
def run(ctx):
    r = ctx.r
    r.level = LEVEL
    tm = tokmodel(ctx)
    r.explanation = (
        "66+ tokenizer state methods are translated to a total table over 130 character atoms (plus the boolean abstractions "
        "'appropriate end tag', 'temporary buffer is script', 'keyword matched'); reconsume chains are closed into macro-steps "
        "and compared with the hand-transcribed WHATWG table (sa/data/whatwg_tokenizer.py). Irregular states are matched by "
        "idiom recognisers and compared through dedicated facts.")
    r.not_decided = NOT_DECIDED
    r.rule("C02.1", "every (state, atom, abstraction) cell is classified by the extractor", floor=8000)
    r.rule("C02.2", "macro-step of each cell equals the transcribed standard's (token-visible ops, next state, stop)", floor=7000)
    r.rule("C02.3", "bulk reads (charsUntil) swallow only characters the same state appends/emits unchanged", floor=15)
    r.rule("C02.4", "keyword look-ahead: --, DOCTYPE, PUBLIC, SYSTEM case-insensitive; [CDATA[ exact and only in foreign content; failure ungets", floor=6)
    r.rule("C02.5", "appropriate end tag: case-insensitive comparison with the last tag token's name, requires a token", floor=4)
    r.rule("C02.6", "emission: tag/attribute/doctype names lower-cased; duplicate attributes resolve first-wins", floor=6)
    r.rule("C02.8", "named references: the trie's longest_prefix tries every shorter prefix in decreasing length", floor=8)
    r.rule("C02.7", "element -> tokenizer state map of the parser equals the standard's", floor=10)

    # ---- C02.1
    n_cells = 0
    for s in tm.states:
        for combo in tm.combos(s):
            atoms = ATOMS if tm.reads_char(s) else ["<none>"]
            for a in atoms:
                tm.arm(s, a, combo)
                n_cells += 1
                r.rules["C02.1"]["instances"] += 1
    r.rules["C02.1"]["keys"] = set(range(n_cells))
    r.extra["states"] = len(tm.states)
    r.extra["cells"] = n_cells
    r.extra["idiom_hits"] = dict(tm.idiom_hits)
    r.extra["programs"] = len(tm.states)

    # every state of the reference exists in the implementation and vice versa
    ref_names = {k if isinstance(k, str) else k[0] for k in W.STATES} | set(W.SPECIAL)
    impl_names = {short(s) for s in tm.states}
    for nme in sorted(ref_names | impl_names):
        # a method of that name that the extractor does not recognise as a state is an unrecognised shape, not a missing state
        unrecognised = nme in ref_names and nme not in impl_names and (nme + "State") in tm.cls.methods
        r.idiom("C02.2", nme in ref_names and nme in impl_names, "state-inventory::%s" % nme, REL,
                "state method %sState is not in a recognised shape" % nme,
                wrong=[(not unrecognised, "state %s exists only in %s" % (nme, "the standard's table" if nme in ref_names else "html5lib"))])

    # ---- C02.2
    disagreements = 0
    for s in tm.states:
        sn = short(s)
        if s in tm.irregular or not tm.reads_char(s):
            continue
        dims = tm.dims[s]
        for combo in tm.combos(s):
            cd = dict(zip(dims, combo))
            groups = {}
            for a in ATOMS:
                if a == "\r":
                    continue            # never delivered to the tokenizer (newline normalisation, C05)
                ref = macro_ref(sn, a, {k: v for k, v in cd.items() if k != "matched"})
                if ref == "KEYWORD":
                    continue
                impl = macro_impl(tm, s, a, combo)
                ok = (impl[0] == ref[0] and impl[1] == ref[1] and impl[2] == ref[2] and impl[3] == ref[3])
                cond = "".join(" %s=%s" % kv for kv in cd.items())
                key = "%s[%s]%s" % (sn, atom_name(a), cond)
                if ok:
                    r.ok("C02.2", key, REL)
                    if a in ("<", "a", None) and len(r.samples) < 30 and sn in ("tagOpen", "data", "commentEnd", "rcdataEndTagName"):
                        r.samples.append({"rule": "C02.2", "cell": key, "impl": repr(impl), "standard": repr(ref), "verdict": "equal"})
                else:
                    disagreements += 1
                    groups.setdefault((repr(impl), repr(ref)), []).append(a)
            # report one violation per distinct (impl, ref) pair in this state, keyed by its first atom
            for (impl_r, ref_r), atoms in groups.items():
                cond = "".join(" %s=%s" % kv for kv in cd.items())
                key = "%s[%s]%s" % (sn, atom_name(atoms[0]), cond)
                line = tm.cls.methods[s].node.lineno
                r.bad("C02.2", key, "%s:%d" % (REL, line),
                      "state %s, input %s%s: html5lib does %s; the standard prescribes %s" % (
                          sn, ",".join(atom_name(x) for x in atoms[:6]) + ("..." if len(atoms) > 6 else ""), cond, impl_r, ref_r),
                      {"state": sn, "atoms": [atom_name(x) for x in atoms], "impl": impl_r, "standard": ref_r})
    r.extra["disagreements_checked"] = disagreements

    # special wrappers
    for s, spec in W.SPECIAL.items():
        if isinstance(spec, tuple):
            sm = next((x for x in tm.states if short(x) == s), None)
            if sm is None:
                continue
            a = tm.arm(sm, "<none>")
            ok = [o for o in a.ops if o[0] != "error"] == [("charref", spec[1], spec[2])] and short(a.next) == spec[3]
            r.check("C02.2", ok, "wrapper::%s" % s, REL, "%s no longer consumes a character reference and returns to %s" % (s, spec[3]))

    bulk(ctx, tm)
    lookahead(ctx, tm)
    appropriate(ctx, tm)
    double_escape_tests(ctx, tm)
    cdata_terminator(ctx, tm)
    cdata_guard(ctx, tm)
    cdata_nul(ctx, tm)
    from . import wslint
    wslint.run(ctx, "C02.9")
    from . import c14
    c14.trie_rules(ctx, "C02.8")
    emission(ctx, tm)
    from . import c01
    c01.content_model(ctx)


def bulk(ctx, tm):
    r = ctx.r
    seen = set()
    for s in tm.states:
        if s in tm.irregular or not tm.reads_char(s):
            continue
        for combo in tm.combos(s):
            for a in ATOMS:
                arm = tm.arm(s, a, combo)
                for o in arm.ops:
                    bulks = []
                    if o[0] in ("emit",):
                        bulks = [(p, "emit", None) for p in o[1] if isinstance(p, tuple) and p and p[0] == "bulk"]
                    elif o[0] == "append":
                        bulks = [(p, "append", o[1]) for p in o[2] if isinstance(p, tuple) and p and p[0] == "bulk"]
                    elif o[0] == "skip":
                        bulks = [(("bulk", o[1], o[2]), "skip", None)]
                    for (_, stop, opp), kind, field in bulks:
                        ident = (s, combo, stop, opp, kind, field)
                        if ident in seen:
                            continue
                        seen.add(ident)
                        swallowed = [b for b in ATOMS if isinstance(b, str) and ((b in stop) if opp else (b not in stop))]
                        offenders = []
                        for b in swallowed:
                            if b == "\r":
                                continue
                            barm = tm.arm(s, b, combo)
                            nops = norm_impl_ops(barm.ops)
                            stays = (barm.next in (None, s)) and not barm.unget and not barm.stop
                            if kind == "emit":
                                same = nops == [("emit", b)]
                            elif kind == "append":
                                want = b.lower() if field in NAMEISH else b
                                same = nops == [("append", field, want)]
                            else:
                                same = nops == []
                            if not (same and stays):
                                offenders.append(atom_name(b))
                        key = "%s::charsUntil(%s%s)%s" % (short(s), "".join(sorted(atom_name(c) for c in stop))[:40],
                                                           ", opposite" if opp else "", "".join(" %s" % (v,) for v in combo))
                        r.check("C02.3", not offenders, key, "%s:%d" % (REL, tm.cls.methods[s].node.lineno),
                                "the bulk read in %s swallows %s, which this state handles specially" % (short(s), offenders[:8]),
                                {"swallowed_special": offenders}, detail={"state": short(s), "swallowed": len(swallowed)})


def lookahead(ctx, tm):
    r = ctx.r
    mdo = getattr(tm, "mdo", None)
    if mdo is None:
        raise AnalysisError("markupDeclarationOpenState model missing")

    def pairs_for(word):
        return tuple((c.lower(), c.upper()) for c in word)
    kws = mdo["keywords"]
    doct = [k for k in kws if k[1] == "pairs"]
    cdat = [k for k in kws if k[1] == "exact"]
    r.check("C02.4", len(doct) == 1 and tuple(tuple(sorted(p)) for p in doct[0][0]) == tuple(tuple(sorted(p)) for p in pairs_for("OCTYPE"))
            and doct[0][2] == "stack", "DOCTYPE", REL,
            "the DOCTYPE keyword is not matched ASCII case-insensitively letter by letter: %s" % (doct,), detail={"keyword": "DOCTYPE"})
    r.check("C02.4", len(cdat) == 1 and tuple(cdat[0][0]) == tuple("CDATA[") and cdat[0][2] == "stack", "[CDATA[", REL,
            "[CDATA[ is not matched exactly (case-sensitively): %s" % (cdat,), detail={"keyword": "[CDATA["})
    nt = mdo["new_tokens"]
    r.check("C02.4", nt.get("Comment") == {"data": "''"}, "new-comment", REL, "`<!--` does not start an empty comment token: %s" % nt.get("Comment"))
    r.check("C02.4", nt.get("Doctype") == {"name": "''", "publicId": "None", "systemId": "None", "correct": "True"}, "new-doctype", REL,
            "DOCTYPE does not start a token with missing identifiers and force-quirks off: %s" % nt.get("Doctype"))
    # PUBLIC / SYSTEM in afterDoctypeName
    adn = next(s for s in tm.states if short(s) == "afterDoctypeName")
    for first, word, target in (("p", "UBLIC", "afterDoctypePublicKeyword"), ("s", "YSTEM", "afterDoctypeSystemKeyword")):
        for a in (first, first.upper()):
            m_ok = tm.arm(adn, a, (True,))
            m_no = tm.arm(adn, a, (False,))
            kw_ok = [o for o in m_ok.ops if o[0] == "keyword"]
            good = (len(kw_ok) == 1 and tuple(tuple(sorted(p)) for p in kw_ok[0][1]) == tuple(tuple(sorted(p)) for p in pairs_for(word))
                    and short(m_ok.next) == target and [o for o in norm_impl_ops(m_ok.ops) if o[0] != "keyword"] == [])
            fail_ops = [o for o in norm_impl_ops(m_no.ops) if o[0] not in ("keyword", "unget-last")]
            good_fail = short(m_no.next) == "bogusDoctype" and fail_ops == [("set", "correct", False)]
            r.check("C02.4", good and good_fail, "%s%s[%s]" % (first.upper(), word, a), REL,
                    "after the DOCTYPE name, %s%s is not recognised case-insensitively / its failure path does not go to the "
                    "bogus DOCTYPE state with force-quirks on" % (first.upper(), word), detail={"keyword": first.upper() + word})


def appropriate(ctx, tm):
    r = ctx.r
    if len(tm.appropriate_exprs) < 4:
        raise AnalysisError("found %d end-tag-name states with an `appropriate` prelude (expected 4)" % len(tm.appropriate_exprs))
    for s, expr in sorted(tm.appropriate_exprs.items()):
        t = norm(expr)
        ok = False
        why = "shape not recognised"
        if isinstance(expr, ast.BoolOp) and isinstance(expr.op, ast.And) and len(expr.values) == 2 and \
                norm(expr.values[0]) == "self.currentToken" and isinstance(expr.values[1], ast.Compare) and \
                isinstance(expr.values[1].ops[0], ast.Eq):
            l, rr = norm(expr.values[1].left), norm(expr.values[1].comparators[0])
            fold = lambda x: x.endswith(".lower()") or x.endswith(".translate(asciiUpper2Lower)")  # noqa: E731
            base = lambda x: x.replace(".lower()", "").replace(".translate(asciiUpper2Lower)", "")  # noqa: E731
            sides = {base(l), base(rr)}
            ok = fold(l) and fold(rr) and sides == {"self.currentToken['name']", "self.temporaryBuffer"}
            why = "compares %s with %s" % (l, rr)
        r.check("C02.5", ok, "appropriate::%s" % short(s), "%s:%d" % (REL, expr.lineno),
                "the appropriate-end-tag test of %s is `%s`: it must require a current token and compare its name with the "
                "temporary buffer ASCII case-insensitively (%s)" % (short(s), t, why), detail={"state": short(s)})
        # the last start tag's name is compared as emitted: folding it with str.lower() also folds non-ASCII cased letters
        # (U+212A KELVIN SIGN -> k), which the standard's "matches the tag name of the last start tag" does not
        if ok:
            name_side = l if base(l) == "self.currentToken['name']" else rr
            r.check("C02.5", not name_side.endswith(".lower()"), "appropriate-ascii-fold::%s" % short(s), "%s:%d" % (REL, expr.lineno),
                    "%s folds the last start tag's name with str.lower(): with last start tag `a\u212a` (KELVIN SIGN, a legal tag-name "
                    "character) the input `</ak>` is taken for the appropriate end tag although `ak` != `a\u212a`" % short(s),
                    detail={"state": short(s)})


def cdata_terminator(ctx, tm):
    """A CDATA section ends at the first `]]>`: the state strips exactly the two brackets before the `>` it has just read."""
    r = ctx.r
    t = getattr(tm, "cdata_terminator", None)
    if t is None:
        raise AnalysisError("cdataSectionState: terminator test not found")
    r.idiom("C02.4", t["test_ok"] and t["strip_ok"], "cdata-terminator", "%s:%d" % (REL, t["line"]),
            "CDATA terminator `if %s: data[-1] = %s` not recognised" % (t["test"], t["strip"]),
            wrong=[(t["test_ok"] and t["strip_wrong"],
                    "cdataSectionState ends the section at ]]> but removes %s instead of exactly the two brackets: text such as "
                    "`a]]]>` loses (or keeps) brackets that belong to the content" % ("`%s`" % t["strip"] if t["strip"] else "nothing"))],
            detail=t)


def cdata_guard(ctx, tm):
    """`<![CDATA[` opens a CDATA section only when the adjusted current node is *not an HTML element*.  "HTML element" is
    whatever namespace the tree builder gives HTML elements (None with namespaceHTMLElements=False), so the test compares with
    the tree's default namespace, not with a fixed URI."""
    r = ctx.r
    g = getattr(tm, "cdata_guard", None)
    if g is None:
        raise AnalysisError("markupDeclarationOpenState: CDATA guard not found")
    r.idiom("C02.4", g["compared_with"] == "self.parser.tree.defaultNamespace", "cdata-guard-default-namespace", "%s:%d" % (REL, g["line"]),
            "CDATA guard compares the current node's namespace with `%s` (not recognised)" % g["compared_with"],
            wrong=[(g["constant"] != "<not constant>",
                    "markupDeclarationOpenState compares the current node's namespace with the constant %r: with "
                    "namespaceHTMLElements=False HTML elements carry namespace None, so `<div><![CDATA[x]]>` opens a CDATA section in "
                    "HTML content (the standard: a bogus comment)" % (g["constant"],))],
            detail=g)


def cdata_nul(ctx, tm):
    """In a CDATA section the standard's tokenizer emits U+0000 unchanged (tree construction replaces it in foreign content);
    a tokenizer that replaces it itself emits different character data."""
    r = ctx.r
    f = ctx.repo.func(REL, "HTMLTokenizer.cdataSectionState")
    r.check("C02.4", not getattr(tm, "cdata_nul_replaced", False), "cdata-nul-replaced", f.where,
            "cdataSectionState replaces U+0000 by U+FFFD itself: the character token for `<![CDATA[a\\0b]]>` is 'a\\ufffdb' where the "
            "standard's tokenizer emits 'a\\0b' (the tree is the same: foreign content replaces NUL during tree construction)",
            detail={"replaced_in_tokenizer": getattr(tm, "cdata_nul_replaced", False)})


def double_escape_tests(ctx, tm):
    """The "is the temporary buffer the string script" tests of the double-escape start / end states: the standard appends the
    *lower-cased* character to the buffer, so the test is ASCII case-insensitive.  Either the appends in the state fold case
    or the comparison does."""
    r = ctx.r
    if len(tm.tmp_script_tests) < 2:
        raise AnalysisError("found %d states testing the temporary buffer against 'script' (expected 2)" % len(tm.tmp_script_tests))
    for s, tests in sorted(tm.tmp_script_tests.items()):
        node, folded = tests[0]
        f = ctx.repo.func(REL, "HTMLTokenizer.%s" % s)
        appends = [n for n in ast.walk(f.node) if isinstance(n, ast.AugAssign) and norm(n.target) == "self.temporaryBuffer"]
        appends_fold = bool(appends) and all(norm(a.value).endswith((".lower()", ".translate(asciiUpper2Lower)")) for a in appends)
        r.check("C02.5", folded or appends_fold, "tmp-is-script::%s" % short(s), "%s:%d" % (REL, node.lineno),
                "%s compares the temporary buffer with 'script' case-sensitively although the buffer holds the characters as "
                "written: </SCRIPT> or <Script> inside an escaped script comment takes the wrong branch" % short(s),
                detail={"state": short(s), "comparison_folds": folded, "appends_fold": appends_fold})


def emission(ctx, tm):
    r = ctx.r
    f = ctx.repo.func(REL, "HTMLTokenizer.emitCurrentToken")
    src = " ".join(norm(f.node).split())
    lowers = [n for n in ast.walk(f.node) if isinstance(n, ast.Assign) and norm(n.targets[0]).endswith("['name']")
              and isinstance(n.value, ast.Call) and isinstance(n.value.func, ast.Attribute) and n.value.func.attr in ("translate", "lower")]
    r.idiom("C02.6", "if token['type'] in tagTokenTypes: token['name'] = token['name'].translate(asciiUpper2Lower)" in src,
            "tag-name-lowercase", f.where, "emitCurrentToken no longer lower-cases the tag name of every tag token",
            wrong=[(not lowers, None)])
    # names are folded with the ASCII-only table, never with str.lower() (which also folds non-ASCII letters: U+212A KELVIN SIGN
    # becomes k, U+0130 becomes two code points)
    uni = dict(tm.unicode_lower_sites)
    for n in ast.walk(f.node):
        if isinstance(n, ast.Assign) and norm(n.targets[0]).endswith("['name']") and isinstance(n.value, ast.Call) and \
                isinstance(n.value.func, ast.Attribute) and n.value.func.attr in ("lower", "casefold"):
            uni[("emitCurrentToken", "name")] = n.lineno
    r.check("C02.6", not uni, "ascii-only-case-folding", "%s:%d" % (REL, min(uni.values()) if uni else f.node.lineno),
            "%s fold(s) a tag / attribute name with str.lower(): the standard lower-cases ASCII letters only, so non-ASCII cased "
            "letters in names are changed (`<a \u212a=1 k=2>` loses its second attribute as a false duplicate)"
            % ", ".join("%s.%s" % (short(k[0]) if k[0].endswith("State") else k[0], k[1]) for k in sorted(uni)),
            detail={"sites": len(uni)})
    # duplicate attributes: dict from pairs + update from the reversed list == first wins
    first_wins = False
    wrong_update = False
    shape = "unrecognised"
    assigns = {norm(n.targets[0]): n.value for n in ast.walk(f.node) if isinstance(n, ast.Assign) and len(n.targets) == 1}
    raw = next((k for k, v in assigns.items() if norm(v) == "token['data']"), None)
    data = next((k for k, v in assigns.items() if isinstance(v, ast.Call) and raw and [norm(a) for a in v.args] == [raw]), None)
    if raw and data:
        shape = "dict-from-pairs (last wins)"
        for n in ast.walk(f.node):
            if isinstance(n, ast.Call) and norm(n.func) == "%s.update" % data and n.args and \
                    norm(n.args[0]) in ("%s[::-1]" % raw, "reversed(%s)" % raw, "list(reversed(%s))" % raw):
                shape = "dict-from-pairs + update(reversed) (first wins)"
                first_wins = True
            elif isinstance(n, ast.Call) and norm(n.func) == "%s.update" % data:
                shape = "dict-from-pairs + update(%s)" % norm(n.args[0])
                wrong_update = norm(n.args[0]) == raw
        stored = any(isinstance(n, ast.Assign) and norm(n.targets[0]) == "token['data']" and norm(n.value) == data for n in ast.walk(f.node))
        first_wins = first_wins and stored
    else:
        raise AnalysisError("emitCurrentToken: attribute-list conversion idiom not recognised")
    r.idiom("C02.6", first_wins, "duplicate-attributes-first-wins", f.where,
            "duplicate-attribute resolution `%s` not recognised" % shape,
            wrong=[(shape == "dict-from-pairs (last wins)" or wrong_update,
                    "duplicate attributes are resolved by `%s`; the standard keeps the first occurrence" % shape)], detail={"shape": shape})
    ctor = data and norm(assigns[data].func)
    amap = None
    for st in f.module.tree.body:
        if isinstance(st, ast.If):
            vals = [norm(n.value) for n in ast.walk(st) if isinstance(n, ast.Assign) and norm(n.targets[0]) == ctor]
            if vals:
                amap = vals
    r.check("C02.6", ctor in ("dict", "OrderedDict") or (amap and set(amap) <= {"dict", "OrderedDict"}), "attribute-map-ordered",
            f.where, "attributes are collected in %s (%s), which does not keep source order" % (ctor, amap))
    # attribute / doctype names lower-cased when leaving the name state
    for sname, field in (("attributeNameState", "attrname"), ("doctypeNameState", "name")):
        for combo in tm.combos(sname):
            for a in ATOMS:
                arm = tm.arm(sname, a, combo)
                leaves = arm.next not in (None, sname)
                if not leaves:
                    continue
                has = ("lowercase", field) in arm.ops
                r.check("C02.6", has, "%s-lowercased-on-exit[%s]" % (field, atom_name(a)),
                        "%s:%d" % (REL, tm.cls.methods[sname].node.lineno),
                        "%s is left on %s without lower-casing the %s" % (short(sname), atom_name(a), field))
    # tag names: every state that appends to the tag name relies on emitCurrentToken (checked above); the end-tag
    # name taken from the temporary buffer is emitted through emitCurrentToken as well
    for s in tm.states:
        if s in tm.irregular or not tm.reads_char(s):
            continue
        for combo in tm.combos(s):
            for a in ("<", ">", "a", " "):
                arm = tm.arm(s, a, combo)
                kinds = [o[1] for o in arm.ops if o[0] == "new"]
                if any(k in ("StartTag", "EndTag") for k in kinds) and ("emit-token",) in arm.ops:
                    r.bad("C02.6", "tag-emitted-without-emitCurrentToken::%s" % short(s), REL,
                          "%s queues a tag token directly, bypassing name lower-casing and duplicate resolution" % short(s))


def thorough(ctx):
    from .. import selftest
    selftest.run(ctx, sys.modules[__name__])


def mutants():
    from ..selftest import TextMutant as T
    return [
        T("attrname-unicode-lower", REL, "            self.currentToken[\"data\"][-1][0] = (\n                self.currentToken[\"data\"][-1][0].translate(asciiUpper2Lower))", "            self.currentToken[\"data\"][-1][0] = self.currentToken[\"data\"][-1][0].lower()", "C02.6"),
        T("double-escape-end-case", REL,
          "            if self.temporaryBuffer.lower() == \"script\":\n                self.state = self.scriptDataEscapedState",
          "            if self.temporaryBuffer == \"script\":\n                self.state = self.scriptDataEscapedState", "C02.5"),
        T("cdata-rstrip", REL, "                    data[-1] = data[-1][:-2]", "                    data[-1] = data[-1].rstrip(\"]\")", "C02.4"),
        T("cdata-strip-one", REL, "                    data[-1] = data[-1][:-2]", "                    data[-1] = data[-1][:-1]", "C02.4"),
        T("trie-skip-one", "_trie/_base.py", "        for i in range(1, len(prefix) + 1):", "        for i in range(2, len(prefix) + 1):", "C02.8"),
        T("wrong-next-state", REL, "        elif data == \"-\":\n            self.currentToken[\"data\"] += \"--!\"\n            self.state = self.commentEndDashState",
          "        elif data == \"-\":\n            self.currentToken[\"data\"] += \"--!\"\n            self.state = self.commentEndState", "C02.2"),
        T("drop-unget", REL, "            self.tokenQueue.append({\"type\": tokenTypes[\"Characters\"], \"data\": \"<\"})\n            self.stream.unget(data)\n            self.state = self.rcdataState",
          "            self.tokenQueue.append({\"type\": tokenTypes[\"Characters\"], \"data\": \"<\"})\n            self.state = self.rcdataState", "C02.2"),
        T("charsuntil-lost-nul", REL, "            chars = self.stream.charsUntil((\"<\", \"\\u0000\"))\n            self.tokenQueue.append({\"type\": tokenTypes[\"Characters\"], \"data\":\n                                    data + chars})\n        return True\n\n    def scriptDataState",
          "            chars = self.stream.charsUntil((\"<\",))\n            self.tokenQueue.append({\"type\": tokenTypes[\"Characters\"], \"data\":\n                                    data + chars})\n        return True\n\n    def scriptDataState", "C02.3"),
        T("fffd-changed", REL, "            self.currentToken[\"name\"] += \"\\uFFFD\"\n        else:\n            self.currentToken[\"name\"] += data\n            # (Don't use charsUntil",
          "            self.currentToken[\"name\"] += \"?\"\n        else:\n            self.currentToken[\"name\"] += data\n            # (Don't use charsUntil", "C02.2"),
        T("doctype-keyword-letter", REL, "for expected in (('o', 'O'), ('c', 'C'), ('t', 'T'),", "for expected in (('o', 'O'), ('c', 'C'), ('t', 't'),", "C02.4"),
        T("cdata-case-insensitive", REL, "                if charStack[-1] != expected:\n                    matched = False\n                    break\n            if matched:\n                self.state = self.cdataSectionState",
          "                if charStack[-1].upper() != expected:\n                    matched = False\n                    break\n            if matched:\n                self.state = self.cdataSectionState", "C02"),
        T("case-sensitive-endtag", REL, "    def rawtextEndTagNameState(self):\n        appropriate = (self.currentToken and\n                       self.currentToken[\"name\"].translate(asciiUpper2Lower) ==\n                       self.temporaryBuffer.translate(asciiUpper2Lower))",
          "    def rawtextEndTagNameState(self):\n        appropriate = self.currentToken and self.currentToken[\"name\"] == self.temporaryBuffer", "C02.5"),
        T("appropriate-unicode-fold", REL, "    def rcdataEndTagNameState(self):\n        appropriate = (self.currentToken and\n                       self.currentToken[\"name\"].translate(asciiUpper2Lower) ==\n                       self.temporaryBuffer.translate(asciiUpper2Lower))",
          "    def rcdataEndTagNameState(self):\n        appropriate = self.currentToken and self.currentToken[\"name\"].lower() == self.temporaryBuffer.lower()", "C02.5"),
        T("last-wins", REL, "                    data.update(raw[::-1])", "                    data.update(raw)", "C02.6"),
        T("no-tagname-lower", REL, "            token[\"name\"] = token[\"name\"].translate(asciiUpper2Lower)\n            if token[\"type\"] == tokenTypes[\"StartTag\"]:",
          "            if token[\"type\"] == tokenTypes[\"StartTag\"]:", "C02.6"),
        T("selfclosing-lost", REL, "        if data == \">\":\n            self.currentToken[\"selfClosing\"] = True\n            self.emitCurrentToken()",
          "        if data == \">\":\n            self.emitCurrentToken()", "C02.2"),
        T("attr-value-eq", REL, "        elif data in ('\"', \"'\", \"=\", \"<\", \"`\"):\n            self.tokenQueue.append({\"type\": tokenTypes[\"ParseError\"], \"data\":\n                                    \"unexpected-character-in-unquoted-attribute-value\"})\n            self.currentToken[\"data\"][-1][1] += data",
          "        elif data in ('\"', \"'\", \"=\", \"<\", \"`\"):\n            self.tokenQueue.append({\"type\": tokenTypes[\"ParseError\"], \"data\":\n                                    \"unexpected-character-in-unquoted-attribute-value\"})", "C02.2"),
        T("publicid-quote", REL, "    def doctypePublicIdentifierSingleQuotedState(self):\n        data = self.stream.char()\n        if data == \"'\":",
          "    def doctypePublicIdentifierSingleQuotedState(self):\n        data = self.stream.char()\n        if data == '\"':", "C02.2"),
    ]


def preserving():
    from ..selftest import TextMutant as T
    return [
        T("reorder-arms", REL, "        if data == \"&\":\n            self.state = self.entityDataState\n        elif data == \"<\":\n            self.state = self.tagOpenState\n        elif data == \"\\u0000\":",
          "        if data == \"<\":\n            self.state = self.tagOpenState\n        elif data == \"&\":\n            self.state = self.entityDataState\n        elif data == \"\\u0000\":", None),
        T("in-tuple", REL, "        if data == \"!\":\n            self.state = self.markupDeclarationOpenState", "        if data in (\"!\",):\n            self.state = self.markupDeclarationOpenState", None),
        T("per-char-instead-of-bulk", REL, "            self.currentToken[\"data\"] += data + \\\n                self.stream.charsUntil((\"-\", \"\\u0000\"))",
          "            self.currentToken[\"data\"] += data", None),
    ]
