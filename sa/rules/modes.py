"""Insertion-mode transitions (shared by C01.12 and C03.12).

Every assignment to parser.phase inside a phase class is compared with the standard's transition table: for the token
kinds / tag names under which the enclosing handler is dispatched, the standard's steps for that insertion mode may
switch only to the listed modes ("R" = reset the insertion mode appropriately, "O" = the saved original mode).
Conversely every transition the standard requires must be reachable from the handler of that token.

The table is transcribed from the "tree construction" section; it knows nothing about html5lib's method names.  `*` is
the "anything else" row (it also covers names for which the standard ignores the token -- a handler that switches modes
for such a name is a dispatch deviation judged by C01.2 / C01.5, not here).
"""
from __future__ import annotations

import ast
from typing import Dict, Set

from ..repo import AnalysisError, norm, walk_no_nested
from ..parsermodel import NONAME, FRESH

ANY_ELSE = ("Characters", "StartTag:*", "EndTag:*", "EOF")


def _row(targets, *ctxs):
    return {c: set(targets) for c in ctxs}


def _merge(*rows):
    out: Dict[str, Set[str]] = {}
    for r in rows:
        for k, v in r.items():
            out.setdefault(k, set()).update(v)
    return out


TABLE_SECTIONS = ("caption", "col", "colgroup", "tbody", "td", "tfoot", "th", "thead", "tr")

ALLOWED: Dict[str, Dict[str, Set[str]]] = {
    "initial": _merge(_row({"beforeHtml"}, "Doctype", *ANY_ELSE)),
    "beforeHtml": _merge(_row({"beforeHead"}, *ANY_ELSE)),
    "beforeHead": _merge(_row({"inHead"}, *ANY_ELSE)),
    "inHead": _merge(_row({"afterHead"}, *ANY_ELSE),
                     {"StartTag:title": {"text"}, "StartTag:noframes": {"text"}, "StartTag:style": {"text"},
                      "StartTag:script": {"text"}, "StartTag:noscript": {"text", "inHeadNoscript"},
                      "EndTag:head": {"afterHead"}}),
    "inHeadNoscript": _merge(_row({"inHead"}, *ANY_ELSE)),
    "afterHead": _merge(_row({"inBody"}, *ANY_ELSE), {"StartTag:frameset": {"inFrameset"}}),
    # (html5lib handles <textarea> without leaving "in body": it only switches the tokenizer; a switch to "text" is allowed)
    "inBody": {"StartTag:frameset": {"inFrameset"}, "StartTag:table": {"inTable"},
               "StartTag:select": {"inSelect", "inSelectInTable"},
               "StartTag:textarea": {"text"}, "StartTag:xmp": {"text"}, "StartTag:iframe": {"text"},
               "StartTag:noembed": {"text"}, "StartTag:noframes": {"text"}, "StartTag:noscript": {"text"},
               "EndTag:body": {"afterBody"}, "EndTag:html": {"afterBody"}},
    "text": _merge(_row({"O"}, "EndTag:*", "EOF")),
    "inTable": _merge(_row({"inTableText"}, "Characters", "SpaceCharacters"),
                      {"StartTag:caption": {"inCaption"}, "StartTag:colgroup": {"inColumnGroup"}, "StartTag:col": {"inColumnGroup"},
                       "StartTag:tbody": {"inTableBody"}, "StartTag:tfoot": {"inTableBody"}, "StartTag:thead": {"inTableBody"},
                       "StartTag:td": {"inTableBody"}, "StartTag:th": {"inTableBody"}, "StartTag:tr": {"inTableBody"},
                       "StartTag:table": {"R"}, "EndTag:table": {"R"}}),
    "inTableText": _merge(_row({"O"}, "Characters", "SpaceCharacters", "Comment", "Doctype", "StartTag:*", "EndTag:*", "EOF")),
    "inCaption": _merge({"EndTag:caption": {"inTable"}, "EndTag:table": {"inTable"}},
                        {"StartTag:%s" % n: {"inTable"} for n in TABLE_SECTIONS}),
    "inColumnGroup": _merge(_row({"inTable"}, *ANY_ELSE), {"EndTag:colgroup": {"inTable"}}),
    "inTableBody": _merge({"StartTag:tr": {"inRow"}, "StartTag:th": {"inRow"}, "StartTag:td": {"inRow"}},
                          {"EndTag:%s" % n: {"inTable"} for n in ("tbody", "tfoot", "thead", "table")},
                          {"StartTag:%s" % n: {"inTable"} for n in ("caption", "col", "colgroup", "tbody", "tfoot", "thead")}),
    "inRow": _merge({"StartTag:th": {"inCell"}, "StartTag:td": {"inCell"}},
                    {"EndTag:%s" % n: {"inTableBody"} for n in ("tr", "table", "tbody", "tfoot", "thead")},
                    {"StartTag:%s" % n: {"inTableBody"} for n in ("caption", "col", "colgroup", "tbody", "tfoot", "thead", "tr")}),
    "inCell": _merge({"EndTag:td": {"inRow"}, "EndTag:th": {"inRow"}},
                     {"EndTag:%s" % n: {"inRow"} for n in ("table", "tbody", "tfoot", "thead", "tr")},
                     {"StartTag:%s" % n: {"inRow"} for n in TABLE_SECTIONS}),
    "inSelect": {"EndTag:select": {"R"}, "StartTag:select": {"R"}, "StartTag:input": {"R"}, "StartTag:keygen": {"R"},
                 "StartTag:textarea": {"R"}},
    "inSelectInTable": _merge({"StartTag:%s" % n: {"R"} for n in ("caption", "table", "tbody", "tfoot", "thead", "tr", "td", "th")},
                              {"EndTag:%s" % n: {"R"} for n in ("caption", "table", "tbody", "tfoot", "thead", "tr", "td", "th")}),
    "afterBody": _merge(_row({"inBody"}, "Characters", "StartTag:*", "EndTag:*"), {"EndTag:html": {"afterAfterBody"}}),
    "inFrameset": {"EndTag:frameset": {"afterFrameset"}},
    "afterFrameset": {"EndTag:html": {"afterAfterFrameset"}},
    "afterAfterBody": _merge(_row({"inBody"}, "Characters", "StartTag:*", "EndTag:*")),
    "afterAfterFrameset": {},
    # html5lib treats the rules for foreign content as a phase object that is never the current phase; its end-tag steps may
    # leave the pending-table-text state (documented as "not in the spec but necessary").
    "inForeignContent": {"EndTag:*": {"O"}},
}

# transitions that must exist (the handler of this token must be able to reach a switch to this mode)
REQUIRED = [
    ("initial", "Doctype", "beforeHtml"), ("initial", "EOF", "beforeHtml"), ("initial", "StartTag:*", "beforeHtml"),
    ("beforeHtml", "StartTag:*", "beforeHead"), ("beforeHtml", "EOF", "beforeHead"), ("beforeHtml", "Characters", "beforeHead"),
    ("beforeHead", "StartTag:head", "inHead"), ("beforeHead", "EOF", "inHead"), ("beforeHead", "Characters", "inHead"),
    ("inHead", "EndTag:head", "afterHead"), ("inHead", "StartTag:title", "text"), ("inHead", "StartTag:style", "text"),
    ("inHead", "StartTag:script", "text"), ("inHead", "StartTag:noscript", "inHeadNoscript"), ("inHead", "EOF", "afterHead"),
    ("inHead", "Characters", "afterHead"), ("inHead", "StartTag:*", "afterHead"),
    ("inHeadNoscript", "EndTag:noscript", "inHead"), ("inHeadNoscript", "Characters", "inHead"),
    ("afterHead", "StartTag:body", "inBody"), ("afterHead", "StartTag:frameset", "inFrameset"), ("afterHead", "EOF", "inBody"),
    ("afterHead", "Characters", "inBody"), ("afterHead", "StartTag:*", "inBody"),
    ("inBody", "StartTag:frameset", "inFrameset"), ("inBody", "StartTag:table", "inTable"), ("inBody", "StartTag:select", "inSelect"),
    ("inBody", "StartTag:select", "inSelectInTable"), ("inBody", "StartTag:xmp", "text"), ("inBody", "StartTag:iframe", "text"),
    ("inBody", "EndTag:body", "afterBody"), ("inBody", "EndTag:html", "afterBody"),
    ("text", "EndTag:script", "O"), ("text", "EndTag:*", "O"), ("text", "EOF", "O"),
    ("inTable", "Characters", "inTableText"), ("inTable", "StartTag:caption", "inCaption"),
    ("inTable", "StartTag:colgroup", "inColumnGroup"), ("inTable", "StartTag:col", "inColumnGroup"),
    ("inTable", "StartTag:tbody", "inTableBody"), ("inTable", "StartTag:tr", "inTableBody"), ("inTable", "StartTag:td", "inTableBody"),
    ("inTable", "EndTag:table", "R"), ("inTable", "StartTag:table", "R"),
    ("inTableText", "StartTag:*", "O"), ("inTableText", "EndTag:*", "O"), ("inTableText", "EOF", "O"), ("inTableText", "Comment", "O"),
    ("inCaption", "EndTag:caption", "inTable"), ("inCaption", "EndTag:table", "inTable"), ("inCaption", "StartTag:tr", "inTable"),
    ("inColumnGroup", "EndTag:colgroup", "inTable"), ("inColumnGroup", "StartTag:*", "inTable"),
    ("inTableBody", "StartTag:tr", "inRow"), ("inTableBody", "StartTag:td", "inRow"), ("inTableBody", "EndTag:tbody", "inTable"),
    ("inTableBody", "EndTag:table", "inTable"), ("inTableBody", "StartTag:caption", "inTable"),
    ("inRow", "StartTag:td", "inCell"), ("inRow", "StartTag:th", "inCell"), ("inRow", "EndTag:tr", "inTableBody"),
    ("inRow", "EndTag:table", "inTableBody"), ("inRow", "StartTag:tr", "inTableBody"),
    ("inCell", "EndTag:td", "inRow"), ("inCell", "EndTag:th", "inRow"), ("inCell", "StartTag:td", "inRow"), ("inCell", "EndTag:table", "inRow"),
    ("inSelect", "EndTag:select", "R"), ("inSelect", "StartTag:select", "R"), ("inSelect", "StartTag:input", "R"),
    ("inSelectInTable", "StartTag:table", "R"), ("inSelectInTable", "EndTag:table", "R"),
    ("afterBody", "EndTag:html", "afterAfterBody"), ("afterBody", "Characters", "inBody"), ("afterBody", "StartTag:*", "inBody"),
    ("afterBody", "EndTag:*", "inBody"),
    ("inFrameset", "EndTag:frameset", "afterFrameset"), ("afterFrameset", "EndTag:html", "afterAfterFrameset"),
    ("afterAfterBody", "Characters", "inBody"), ("afterAfterBody", "StartTag:*", "inBody"), ("afterAfterBody", "EndTag:*", "inBody"),
]

ENTRY_KIND = {"processCharacters": "Characters", "processSpaceCharacters": "SpaceCharacters", "processComment": "Comment",
              "processDoctype": "Doctype", "processEOF": "EOF", "processStartTag": "StartTag:*", "processEndTag": "EndTag:*"}


def allowed(mode, ctxname):
    t = ALLOWED[mode]
    if ctxname in t:
        return t[ctxname]
    kind = ctxname.split(":")[0]
    return t.get(kind + ":*", set()) if ":" in ctxname else set()


def _model(ctx):
    from . import c01
    return c01.model(ctx)


def analyse(ctx):
    """-> (stores, contexts, reach) where stores: {(cls key, func qual): [(target, where)]}"""
    def build():
        pm = _model(ctx)
        repo = ctx.repo
        parser_cls = repo.cls("html5parser.py", "HTMLParser")
        # targets stored by HTMLParser helper methods, attributed to their call sites in phase classes
        helper_targets: Dict[str, Set[str]] = {}
        for f, n, k in pm.phase_stores:
            if f.cls is parser_cls:
                t = {"<newModes>": "R", "<originalPhase>": "O"}.get(k, k)
                helper_targets.setdefault(f.name, set()).add(t)
        helper_targets.pop("reset", None)
        helper_targets.pop("_parse", None)
        stores = {}
        key_of = {}
        for key, cls in pm.phases.items():
            key_of[id(cls)] = key
        funcs = {}
        for key, cls in pm.phases.items():
            for c in cls.mro():
                if c is pm.Phase:
                    continue
                for f in c.methods.values():
                    funcs.setdefault((key, f.name), f)
        for f, n, k in pm.phase_stores:
            if f.cls is None or id(f.cls) not in key_of:
                continue
            t = {"<newModes>": "R", "<originalPhase>": "O"}.get(k, k)
            stores.setdefault((key_of[id(f.cls)], f.name), []).append((t, "%s:%d" % (f.module.rel, n.lineno)))
        calls = {}
        for (key, name), f in funcs.items():
            if f.cls is None or id(f.cls) not in key_of or key_of[id(f.cls)] != key:
                continue
            for n in walk_no_nested(f.node):
                if isinstance(n, ast.Call):
                    fn = norm(n.func)
                    if fn.startswith("self.parser.") and fn.count(".") == 2 and fn.split(".")[2] in helper_targets:
                        for t in helper_targets[fn.split(".")[2]]:
                            stores.setdefault((key, name), []).append((t, "%s:%d" % (f.module.rel, n.lineno)))
                    if fn.startswith("self.") and fn.count(".") == 1:
                        calls.setdefault((key, name), set()).add(fn.split(".")[1])
        # direct dispatch contexts of each method
        direct: Dict[tuple, Set[str]] = {}
        for key, cls in pm.phases.items():
            for meth, kind in ENTRY_KIND.items():
                m = cls.find_method(meth)
                if m is not None and m.cls is not pm.Phase:
                    direct.setdefault((key, m.name), set()).add(kind)
            for attr, kind in (("startTagHandler", "StartTag"), ("endTagHandler", "EndTag")):
                pmeth = cls.find_method("processStartTag" if kind == "StartTag" else "processEndTag")
                if pmeth is None or pmeth.cls is not pm.Phase:
                    continue         # the table is not consulted by an overriding process method (or only through it)
                tab = pm.table_for(cls, attr)
                if tab is None:
                    continue
                for k, f in tab.map.items():
                    direct.setdefault((key, f.name), set()).add("%s:%s" % (kind, k))
                if tab.default is not None:
                    direct.setdefault((key, tab.default.name), set()).add("%s:*" % kind)
        # overriding processStartTag / processEndTag that consult the table themselves: both the override and the handlers
        for key, cls in pm.phases.items():
            for attr, kind in (("startTagHandler", "StartTag"), ("endTagHandler", "EndTag")):
                pmeth = cls.find_method("processStartTag" if kind == "StartTag" else "processEndTag")
                if pmeth is None or pmeth.cls is pm.Phase:
                    continue
                tab = pm.table_for(cls, attr)
                if tab is None:
                    continue
                if any(isinstance(n, ast.Attribute) and n.attr == attr for n in ast.walk(pmeth.node)):
                    for k, f in tab.map.items():
                        direct.setdefault((key, f.name), set()).add("%s:%s" % (kind, k))
                    if tab.default is not None:
                        direct.setdefault((key, tab.default.name), set()).add("%s:*" % kind)
        return {"pm": pm, "stores": stores, "calls": calls, "direct": direct, "funcs": funcs}
    return ctx.shared("mode_transitions", build)


def contexts_of(a, key, name):
    """Dispatch contexts under which method `name` of phase `key` runs: its own, else those of its same-class callers."""
    d = a["direct"].get((key, name))
    if d:
        return set(d), True
    seen, todo, out = set(), [name], set()
    while todo:
        n = todo.pop()
        if n in seen:
            continue
        seen.add(n)
        for (k, caller), callees in a["calls"].items():
            if k == key and n in callees:
                dd = a["direct"].get((key, caller))
                if dd:
                    out |= dd
                else:
                    todo.append(caller)
    return out, False


def reachable_targets(a, func, tagname):
    """Targets of the phase stores in functions reachable from `func` in the parser model's context-sensitive call graph
    (implied tokens are followed to the handler of their tag name; `parser.phase` is any assignable phase)."""
    pm = a["pm"]
    nodes, edges, sites = pm.build_graph([(func, tagname)])
    fqs = {f.fq for f, n in nodes.values()}
    out = set()
    for f, n, k in pm.phase_stores:
        if f.fq in fqs:
            out.add({"<newModes>": "R", "<originalPhase>": "O"}.get(k, k))
    return out


def run(ctx, rid):
    r = ctx.r
    a = analyse(ctx)
    pm = a["pm"]
    missing_modes = set(pm.phases) - set(ALLOWED)
    if missing_modes:
        raise AnalysisError("phases %s are not in the transition table" % sorted(missing_modes))
    n = 0
    for (key, name), sts in sorted(a["stores"].items()):
        ctxs, is_direct = contexts_of(a, key, name)
        f = a["funcs"].get((key, name))
        for t, where in sts:
            n += 1
            ikey = "%s.%s -> %s" % (key, name, t)
            if not ctxs:
                r.idiom(rid, False, ikey, where, "no dispatch context found for %s.%s" % (key, name))
                continue
            union = set()
            for c in ctxs:
                union |= allowed(key, c)
            r.check(rid, t in union, ikey, where,
                    "in the %s insertion mode, the handler of %s switches to %s; the standard's steps for these tokens switch only to %s"
                    % (key, ", ".join(sorted(ctxs))[:120], {"R": "the reset mode", "O": "the original mode"}.get(t, t),
                       sorted(union) or "no other mode"),
                    {"mode": key, "handler": name, "target": t, "contexts": sorted(ctxs)},
                    detail={"mode": key, "contexts": sorted(ctxs)[:6], "target": t})
    # required transitions
    for mode, c, t in REQUIRED:
        if mode not in pm.phases:
            raise AnalysisError("phase %s vanished" % mode)
        cls = pm.phases[mode]
        kind, _, nm = c.partition(":")
        if kind in ("StartTag", "EndTag"):
            h, how = pm.handler(cls, kind, nm if nm != "*" else "\x00other")
            if h is not None and how == "override":
                hs = [h]
            else:
                hs = [h] if h is not None else []
        else:
            meth = [m for m, k in ENTRY_KIND.items() if k == kind][0]
            h = cls.find_method(meth)
            hs = [h] if h is not None and h.cls is not pm.Phase else []
        ikey = "%s on %s -> %s" % (mode, c, t)
        if not hs:
            r.bad(rid, ikey, cls.where, "the %s insertion mode has no handler for %s (the standard switches to %s)" % (mode, c, t),
                  {"mode": mode, "context": c, "target": t})
            continue
        got = set()
        for h in hs:
            got |= reachable_targets(a, h, (nm if nm != "*" else FRESH) if kind in ("StartTag", "EndTag") else NONAME)
        r.check(rid, t in got, ikey, hs[0].where,
                "in the %s insertion mode the handler of %s (%s) cannot switch to %s, as the standard requires (reachable switches: %s)"
                % (mode, c, hs[0].qual, {"R": "the reset mode", "O": "the original mode"}.get(t, t), sorted(got)),
                {"mode": mode, "context": c, "target": t}, detail={"handler": hs[0].qual, "reachable": sorted(got)})
    return n
