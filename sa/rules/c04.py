"""C04 -- the parsed tree does not depend on the tree builder chosen (sibling cross-check).

C04.1 INTERFACE   each back-end implements every abstract Node primitive / TreeBuilder factory slot
C04.2 PARENT      attaching primitives store node.parent = self, detaching ones store None
C04.3 SHADOW      etree: every mutation of the real child list is mirrored on the shadow list _childNodes
C04.4 SELF-CALLS  self.m(...) inside the wrappers resolves to a defined method
C04.5 SIGNATURES  overriding primitives keep the base parameter list
"""
from __future__ import annotations

import ast
import sys

from ..repo import AnalysisError, attr_chain, norm, walk_no_nested
from ..cfg import CFG, node_calls

LEVEL = "other"
TECHNIQUE = "sibling cross-check of the two tree-builder back-ends against base.Node / base.TreeBuilder; CFG pairing of list mutations; who-may-write rule on the ElementTree child lists; argument provenance of cloneNode"
CLAIM = ('Both back-ends implement the complete primitive interface with the base signatures; every primitive '
         'that attaches or detaches a node maintains the parent pointer; in the ElementTree back-end the '
         'shadow child list that reparentChildren/removeChild consult is updated on every path that updates '
         'the real child list -- the structural reason one back-end could lose or misplace nodes that the '
         "other keeps; etree text is appended, never overwritten; the childNodes property's list is not "
         'mutated in place; namespaced attribute keys use their namespace in both back-ends. Text moved by '
         'reparentChildren is cleared at its source; hasContent counts every child and the text in both back- '
         'ends; the DOM attribute wrapper keeps the Mapping contract (KeyError for a missing name) that `in` '
         'relies on. A node that may already have a parent is detached before it is attached elsewhere '
         '(minidom moves, ElementTree duplicates); the builder-module cache keys on keyword values.'
         " The DOM doctype name goes through minidom's qualified-name split (read off the standard library's source) and plain attribute names are stored verbatim as ElementTree keys, where `{..}` reads as Clark notation (two known findings)."
         ' In the ElementTree back-end the two child lists are written only through self inside the attach / detach primitives (who-may-write), so no node moves without its parent link.')
NOT_DECIDED = "text placement (.text/.tail arithmetic), fragment extraction, equality of the resulting trees as such."
MODULES = ["treebuilders/base.py", "treebuilders/etree.py", "treebuilders/dom.py", "treebuilders/__init__.py"]

ELEM_MUT = {"append": "append", "insert": "insert", "remove": "remove"}


def backends(ctx):
    repo = ctx.repo
    base_node = repo.cls("treebuilders/base.py", "Node")
    base_tb = repo.cls("treebuilders/base.py", "TreeBuilder")
    et = repo.module("treebuilders/etree.py")
    dm = repo.module("treebuilders/dom.py")
    et_el = et.find_class("getETreeBuilder.Element")
    dm_el = dm.find_class("getDomBuilder.NodeBuilder")
    et_tb = et.find_class("getETreeBuilder.TreeBuilder")
    dm_tb = dm.find_class("getDomBuilder.TreeBuilder")
    for c, nm in ((et_el, "etree Element"), (dm_el, "dom NodeBuilder"), (et_tb, "etree TreeBuilder"), (dm_tb, "dom TreeBuilder")):
        if c is None:
            raise AnalysisError("%s vanished" % nm)
    if not (et_el.is_subclass_of(base_node) and dm_el.is_subclass_of(base_node)
            and et_tb.is_subclass_of(base_tb) and dm_tb.is_subclass_of(base_tb)):
        raise AnalysisError("back-end classes no longer derive from base.Node / base.TreeBuilder")
    return base_node, base_tb, et_el, dm_el, et_tb, dm_tb


def _is_abstract(m) -> bool:
    body = [s for s in m.node.body if not (isinstance(s, ast.Expr) and isinstance(s.value, ast.Constant))]
    return len(body) == 1 and isinstance(body[0], ast.Raise) and "NotImplementedError" in norm(body[0])


def run(ctx):
    r = ctx.r
    r.explanation = (
        "The ElementTree and DOM node wrappers / TreeBuilder subclasses are compared with base.Node / base.TreeBuilder and with "
        "each other: abstract-method coverage, factory slots, signatures, parent-pointer stores in attach/detach primitives, "
        "and (etree) CFG pairing of every real-child-list mutation with the same mutation of the shadow list.")
    r.not_decided = NOT_DECIDED
    r.rule("C04.1", "every abstract primitive / factory slot of the base classes is supplied by each back-end", floor=20)
    r.rule("C04.2", "attach primitives store node.parent = self; detach primitives store node.parent = None", floor=6)
    r.rule("C04.3", "etree: each mutation of self._element's children is paired with the same mutation of self._childNodes", floor=4)
    r.rule("C04.6", "etree: text is appended to .text/.tail, never overwritten, when inserting or re-parenting", floor=6)
    r.rule("C04.7", "tuple attribute keys (prefix, local, namespace) use the namespace on every path in both back-ends", floor=2)
    r.rule("C04.4", "self.m(...) in the node wrappers resolves to a defined method (observation when unreachable)", floor=3)
    r.rule("C04.5", "overrides keep the base positional parameter list", floor=10)
    base_node, base_tb, et_el, dm_el, et_tb, dm_tb = backends(ctx)

    # ---- C04.1
    abstract = [n for n, m in base_node.methods.items() if _is_abstract(m)]
    if len(abstract) < 5:
        raise AnalysisError("base.Node has only %d abstract primitives" % len(abstract))
    for cls, label in ((et_el, "etree"), (dm_el, "dom")):
        for nm in abstract:
            m = cls.find_method(nm)
            r.check("C04.1", m is not None and m.cls is not base_node, "%s::Node.%s" % (label, nm), cls.where,
                    "%s node wrapper does not implement the abstract primitive %s" % (label, nm),
                    detail={"backend": label, "primitive": nm})
    slots = [a for a, v in base_tb.assigns.items() if a.endswith("Class") and isinstance(v, ast.Constant) and v.value is None]
    if len(slots) < 5:
        raise AnalysisError("base.TreeBuilder has only %d factory slots" % len(slots))
    for cls, label in ((et_tb, "etree"), (dm_tb, "dom")):
        for slot in slots:
            supplied = slot in cls.assigns or slot in cls.methods
            if not supplied:
                # every base method that uses the slot must be overridden
                users = [mn for mn, m in base_tb.methods.items()
                         if any(attr_chain(x) == ["self", slot] for x in ast.walk(m.node) if isinstance(x, ast.Attribute))]
                def really_overrides(u):
                    m = cls.methods.get(u)
                    if m is None:
                        return False
                    # an override that delegates to the base implementation still needs the slot
                    return not any(isinstance(c, ast.Call) and isinstance(c.func, ast.Attribute) and c.func.attr == u
                                   and norm(c.func.value) != "self" for c in walk_no_nested(m.node))
                supplied = bool(users) and all(really_overrides(u) for u in users)
            r.check("C04.1", supplied, "%s::TreeBuilder.%s" % (label, slot), cls.where,
                    "%s TreeBuilder neither supplies %s nor overrides the methods that use it" % (label, slot),
                    detail={"backend": label, "slot": slot})
    for cls, label in ((et_tb, "etree"), (dm_tb, "dom")):
        for nm, m in base_tb.methods.items():
            if _is_abstract(m):
                mm = cls.find_method(nm)
                r.check("C04.1", mm is not None and mm.cls is not base_tb, "%s::TreeBuilder.%s" % (label, nm), cls.where,
                        "%s TreeBuilder does not implement %s" % (label, nm))

    # ---- C04.2
    for cls, label in ((et_el, "etree"), (dm_el, "dom")):
        for prim, want in (("appendChild", "self"), ("insertBefore", "self"), ("removeChild", "None")):
            m = cls.find_method(prim)
            if m is None or m.cls is base_node:
                continue
            node_param = m.params()[1]
            cfg = CFG(m.node)
            stores = [n for n in cfg.stmt_nodes() if n.kind == "stmt" and isinstance(n.ast, ast.Assign) and any(
                attr_chain(t) == [node_param, "parent"] for t in n.ast.targets) and norm(n.ast.value) == want]
            # the store must be on every path to the normal exit
            par = cfg.reach_forward([cfg.entry], lambda x: x in stores)
            r.check("C04.2", bool(stores) and cfg.exit.id not in par, "%s::%s" % (label, prim), m.where,
                    "%s %s does not store %s.parent = %s on every path: later steps that consult .parent (foster parenting, "
                    "adoption agency) see a stale parent" % (label, prim, node_param, want),
                    detail={"backend": label, "primitive": prim, "parent": want})

    # ---- C04.3
    n3 = 0
    for nm, m in et_el.methods.items():
        cfg = None
        for c in walk_no_nested(m.node):
            kind = None
            if isinstance(c, ast.Call) and isinstance(c.func, ast.Attribute) and attr_chain(c.func.value) == ["self", "_element"] \
                    and c.func.attr in ELEM_MUT:
                kind = c.func.attr
            elif isinstance(c, ast.Delete) and any(isinstance(t, ast.Subscript) and attr_chain(t.value) == ["self", "_element"]
                                                   for t in c.targets):
                kind = "clear"
            if kind is None:
                continue
            n3 += 1
            cfg = cfg or CFG(m.node)

            def shadow(n, kind=kind):
                if n.kind != "stmt":
                    return False
                if kind == "clear":
                    return isinstance(n.ast, ast.Assign) and any(attr_chain(t) == ["self", "_childNodes"] for t in n.ast.targets) \
                        and norm(n.ast.value) in ("[]", "list()")
                return any(isinstance(x.func, ast.Attribute) and x.func.attr == kind and
                           attr_chain(x.func.value) == ["self", "_childNodes"] for x in node_calls(n))
            sites = cfg.locate(c)
            ok = bool(sites) and (not cfg.must_follow(sites, shadow) or not cfg.must_precede(sites, shadow))
            # positional agreement for insert: same index expression
            if ok and kind == "insert":
                idx = norm(c.args[0]) if c.args else None
                sh = [x for n in cfg.stmt_nodes() for x in node_calls(n) if isinstance(x.func, ast.Attribute)
                      and x.func.attr == "insert" and attr_chain(x.func.value) == ["self", "_childNodes"]]
                ok = any(norm(x.args[0]) == idx for x in sh if x.args)
            r.check("C04.3", ok, "etree::Element.%s::%s" % (nm, kind), "%s:%d" % (m.module.rel, c.lineno),
                    "Element.%s mutates the ElementTree child list (%s) without the same mutation of the shadow list "
                    "_childNodes: reparentChildren/removeChild, which iterate the shadow list, lose the node" % (nm, kind),
                    {"method": nm, "mutation": kind}, detail={"method": nm, "mutation": kind, "mirrored": True})
    if n3 < 4:
        raise AnalysisError("C04.3 matched only %d child-list mutations" % n3)

    # ---- C04.6 text accumulation (etree keeps text in .text/.tail strings)
    for nm in ("insertText", "reparentChildren"):
        m = et_el.methods.get(nm)
        if m is None:
            raise AnalysisError("etree Element.%s vanished" % nm)
        for st in walk_no_nested(m.node):
            if isinstance(st, ast.Assign) and isinstance(st.targets[0], ast.Attribute) and st.targets[0].attr in ("text", "tail"):
                ok = isinstance(st.value, ast.Constant) and st.value.value in ("", None)
                r.check("C04.6", ok, "etree::%s::%s = %s" % (nm, norm(st.targets[0])[-30:], norm(st.value)[:20]),
                        "%s:%d" % (m.module.rel, st.lineno),
                        "Element.%s overwrites existing %s with `%s` instead of appending to it: text already there is lost "
                        "(the DOM back-end keeps it as a separate text node)" % (nm, st.targets[0].attr, norm(st.value)))
            elif isinstance(st, ast.AugAssign) and isinstance(st.target, ast.Attribute) and st.target.attr in ("text", "tail"):
                r.check("C04.6", isinstance(st.op, ast.Add), "etree::%s::%s += ..." % (nm, norm(st.target)[-30:]),
                        "%s:%d" % (m.module.rel, st.lineno), "text is combined with %s" % type(st.op).__name__)
    # ---- C04.6b: text is *moved* by reparentChildren: the source's text is cleared on every path after it has been copied
    m = et_el.methods["reparentChildren"]
    cfg = CFG(m.node)
    copies = [n for n in cfg.stmt_nodes() if n.kind == "stmt" and isinstance(n.ast, ast.AugAssign) and
              isinstance(n.ast.target, ast.Attribute) and n.ast.target.attr in ("text", "tail") and norm(n.ast.value) == "self._element.text"]
    if not copies:
        raise AnalysisError("etree Element.reparentChildren no longer copies self._element.text")

    def clears(n):
        return n.kind == "stmt" and isinstance(n.ast, ast.Assign) and norm(n.ast.targets[0]) == "self._element.text" and \
            isinstance(n.ast.value, ast.Constant) and n.ast.value.value in ("", None)
    for cpy in copies:
        bad = cfg.must_follow([cpy], clears)
        r.check("C04.6", not bad, "etree::reparentChildren::source-text-cleared::%s" % norm(cpy.ast.target)[-24:], "%s:%d" % (m.module.rel, cpy.ast.lineno),
                "Element.reparentChildren copies the element's text to the new parent but does not clear it on the old one: the text "
                "appears twice in the tree (the DOM back-end moves the text node)", detail={"copy": norm(cpy.ast)})
    # ---- C04.8 hasContent counts every child (comments included) and the text
    r.rule("C04.8", "hasContent is true for any child node or text in both back-ends; the DOM attribute wrapper raises KeyError for a missing name", floor=3)
    hc = et_el.methods.get("hasContent")
    if hc is None:
        raise AnalysisError("etree Element.hasContent vanished")
    rets = [x for x in walk_no_nested(hc.node) if isinstance(x, ast.Return)]
    src = norm(rets[0].value) if len(rets) == 1 and rets[0].value is not None else ""
    atoms = set()
    v = rets[0].value if len(rets) == 1 else None
    if isinstance(v, ast.Call) and norm(v.func) == "bool" and len(v.args) == 1:
        v = v.args[0]
    if isinstance(v, ast.BoolOp) and isinstance(v.op, ast.Or):
        atoms = {norm(x) for x in v.values}
    elif v is not None:
        atoms = {norm(v)}
    text_atoms = {"self._element.text"}
    child_atoms = {"len(self._element)", "self._childNodes", "len(self._childNodes)", "len(self._element) > 0"}
    filtered = any(isinstance(x, (ast.GeneratorExp, ast.ListComp)) and (x.generators[0].ifs or not isinstance(x.elt, ast.Name) and "Comment" in norm(x))
                   for x in ast.walk(hc.node))
    r.idiom("C04.8", bool(atoms & text_atoms) and bool(atoms & child_atoms) and atoms <= text_atoms | child_atoms, "etree::hasContent", hc.where,
            "etree hasContent `%s` not recognised" % src,
            wrong=[(filtered, "etree Element.hasContent filters the children it counts (`%s`): an element whose only child is a comment "
                              "counts as empty, so the newline after <pre><!--c--> is dropped; the DOM back-end counts every child" % src[:90]),
                   (bool(atoms) and not (atoms & text_atoms), "etree Element.hasContent ignores the element's text"),
                   (bool(atoms) and not (atoms & child_atoms) and not filtered, "etree Element.hasContent ignores the element's children")],
            detail={"expr": src})
    dh = dm_el.methods.get("hasContent")
    if dh is None:
        raise AnalysisError("dom NodeBuilder.hasContent vanished")
    dsrc = [norm(s) for s in dh.node.body if not (isinstance(s, ast.Expr) and isinstance(s.value, ast.Constant))]
    r.idiom("C04.8", dsrc in (["return self.element.hasChildNodes()"], ["return bool(self.element.childNodes)"], ["return len(self.element.childNodes) > 0"]),
            "dom::hasContent", dh.where, "dom hasContent %s not recognised" % dsrc)
    # the attribute wrapper is a MutableMapping without __contains__: `name in attributes` works through __getitem__ raising KeyError
    al = ctx.repo.module("treebuilders/dom.py").find_class("getDomBuilder.AttrList")
    if al is None:
        raise AnalysisError("dom AttrList vanished")
    gi = al.methods.get("__getitem__")
    if gi is None:
        raise AnalysisError("dom AttrList.__getitem__ vanished")
    if "__contains__" in al.methods:
        r.ok("C04.8", "dom::AttrList.__getitem__", gi.where, detail={"contains": "own __contains__"})
    else:
        p = gi.params()[1]
        rets = [x for x in walk_no_nested(gi.node) if isinstance(x, ast.Return) and x.value is not None]
        def raises_on_missing(v):
            return any(isinstance(s, ast.Subscript) and norm(s.slice) == p for s in ast.walk(v))
        def defaulting(v):
            return any(isinstance(c, ast.Call) and isinstance(c.func, ast.Attribute) and c.func.attr in ("get", "getAttribute", "getAttributeNS")
                       for c in ast.walk(v)) and not raises_on_missing(v)
        explicit = any(isinstance(x, ast.Raise) and "KeyError" in norm(x) for x in walk_no_nested(gi.node))
        r.idiom("C04.8", bool(rets) and (explicit or all(raises_on_missing(x.value) for x in rets)), "dom::AttrList.__getitem__", gi.where,
                "dom AttrList.__getitem__ not recognised",
                wrong=[(bool(rets) and not explicit and any(defaulting(x.value) for x in rets),
                        "dom AttrList.__getitem__ returns a default for a missing attribute instead of raising KeyError: the Mapping "
                        "protocol's `in` (used to merge attributes of a repeated <html>/<body> tag) then reports every name as present "
                        "and new attributes are never added")],
                detail={"returns": [norm(x.value) for x in rets]})
    # ---- C04.9 detach before attach: minidom moves a node that already has a parent, ElementTree appends a second reference
    r.rule("C04.9", "a node that may already have a parent is detached before it is attached elsewhere", floor=5)
    FRESH_CALLS = ("createElement", "cloneNode", "elementClass", "commentClass", "doctypeClass", "fragmentClass", "documentClass")
    n9 = 0
    for rel in ("html5parser.py", "treebuilders/base.py"):
        for f in ctx.repo.module(rel).all_functions:
            calls = [c for c in walk_no_nested(f.node) if isinstance(c, ast.Call) and isinstance(c.func, ast.Attribute)
                     and c.func.attr in ("appendChild", "insertBefore") and c.args]
            if not calls:
                continue
            cfg = None
            for c in calls:
                y = c.args[0]
                key = "detach-before-attach::%s::%s" % (f.qual, norm(c)[:40])
                where = "%s:%d" % (rel, c.lineno)
                if isinstance(y, ast.Call):
                    fresh = (attr_chain(y.func) or [""])[-1] in FRESH_CALLS
                    r.idiom("C04.9", fresh, key, where, "attached value `%s` is not a recognised constructor" % norm(y)[:40])
                    n9 += 1
                    continue
                if not isinstance(y, ast.Name):
                    continue
                n9 += 1
                stores = [s for s in walk_no_nested(f.node) if isinstance(s, ast.Assign) and any(isinstance(t, ast.Name) and t.id == y.id for t in s.targets)]
                fresh = bool(stores) and all(isinstance(s.value, ast.Call) and (attr_chain(s.value.func) or [""])[-1] in FRESH_CALLS for s in stores)
                if fresh:
                    r.ok("C04.9", key, where, detail={"node": y.id, "why": "created in this function"})
                    continue
                # move-all idiom: for child in self.childNodes: new.appendChild(child) ... self.childNodes = []
                loop = next((l for l in walk_no_nested(f.node) if isinstance(l, ast.For) and isinstance(l.target, ast.Name) and l.target.id == y.id
                             and norm(l.iter).endswith("childNodes") and any(x is c for x in ast.walk(l))), None)
                if loop is not None:
                    src_expr = norm(loop.iter)
                    cleared = any(isinstance(s, ast.Assign) and norm(s.targets[0]) == src_expr and norm(s.value) == "[]" for s in walk_no_nested(f.node))
                    r.check("C04.9", cleared, key, where, "%s moves every child of %s without clearing the source list afterwards" % (f.qual, src_expr),
                            detail={"node": y.id, "why": "move-all idiom"})
                    continue
                cfg = cfg or CFG(f.node)
                loc = cfg.locate(c)

                def detached(n, lab, y=y):
                    if n.kind == "test" and norm(n.ast) == "%s.parent" % y.id and lab is False:
                        return True
                    return any(isinstance(cc.func, ast.Attribute) and cc.func.attr == "removeChild" and cc.args and norm(cc.args[0]) == y.id
                               for cc in node_calls(n))
                ok = bool(loc) and all(cfg.dominated_by(l, detached) for l in loc)
                r.check("C04.9", ok, key, where,
                        "%s attaches `%s`, which may still be a child of another node, without detaching it first: minidom moves the node, "
                        "ElementTree keeps it in both places, so the ElementTree tree contains the subtree twice" % (f.qual, y.id),
                        {"function": f.qual, "node": y.id}, detail={"node": y.id, "why": "dominated by removeChild / no-parent test"})
    if n9 < 8:
        raise AnalysisError("C04.9 matched %d attach sites" % n9)
    # ---- C04.10 the builder factory cache distinguishes the full-tree and root-element forms (keyword values are in the key)
    r.rule("C04.10", "the tree-builder module cache keys on the keyword arguments' values (fullTree, ...)", floor=1)
    from .c12 import lossy_cache_keys
    lossy_cache_keys(ctx, "C04.10")
    # ---- C04.11 plain attribute names reach minidom through setAttribute(), which also indexes every attribute under
    # (None, part after the colon): `lang` and `xml:lang` on an HTML element collide there, ElementTree keeps both
    r.rule("C04.11", "the DOM back-end stores two attributes of one element whose names differ only by a prefix (lang / xml:lang)", floor=1)
    sa = dm_el.methods.get("setAttributes")
    if sa is None:
        raise AnalysisError("dom NodeBuilder.setAttributes vanished")
    plain = [c for c in ast.walk(sa.node) if isinstance(c, ast.Call) and norm(c.func) == "self.element.setAttribute"]
    guarded = any(isinstance(t, (ast.If, ast.IfExp)) and ("':'" in norm(t.test) or "':' in" in norm(t.test)) for t in ast.walk(sa.node))
    r.idiom("C04.11", not plain, "dom-plain-attribute-names", sa.where, "dom setAttributes: storage of plain attribute names not recognised",
            wrong=[(bool(plain) and not guarded,
                    "the DOM back-end stores plain attribute names with Element.setAttribute(); minidom files every attribute under "
                    "(None, local part) as well, so `<p lang=en xml:lang=fr>` keeps only xml:lang (and `<a xlink:href=x href=y>` only "
                    "href) while the ElementTree back-end keeps both")],
            detail={"setAttribute_calls": len(plain)})
    # ---- C04.12 the DOM back-end creates an element without namespace only when it has none (HTML element with namespacing off)
    from ..partition import MiniInterp, Opaque
    r.rule("C04.12", "dom elementClass keeps the namespace of every element that has one", floor=6)
    ec = dm_tb.methods.get("elementClass")
    if ec is None:
        raise AnalysisError("dom TreeBuilder.elementClass vanished")
    ns_map = ctx.ce.const("constants.py", "namespaces")
    for default in (None, ns_map["html"]):
        for nsk in (None, "html", "svg", "mathml"):
            ns_val = None if nsk is None else ns_map[nsk]
            made = []

            def stmt_hook(st, out, interp, made=made):
                if isinstance(st, ast.Assign) and isinstance(st.value, ast.Call) and isinstance(st.value.func, ast.Attribute) and \
                        st.value.func.attr in ("createElement", "createElementNS"):
                    made.append((st.value.func.attr, [norm(a) for a in st.value.args]))
                    out.env[norm(st.targets[0])] = Opaque("node")
                    return False
                return NotImplemented

            def hook(node, local, default=default):
                if norm(node) == "self.defaultNamespace":
                    return default
                return NotImplemented
            interp = MiniInterp(ctx.ce, ec.module, expr_hook=hook, stmt_hook=stmt_hook)
            key = "dom-element-namespace[default=%s element=%s]" % ("None" if default is None else "html", nsk)
            try:
                interp.run(ec.node.body, {"self": Opaque("self"), ec.params()[1]: "x", ec.params()[2]: ns_val})
            except AnalysisError as e:
                r.idiom("C04.12", False, key, ec.where, "dom elementClass not decidable (%s)" % str(e)[:60])
                continue
            kept = bool(made) and made[0][0] == "createElementNS" and made[0][1][:1] == [ec.params()[2]]
            need = ns_val is not None
            r.check("C04.12", kept or not need, key, ec.where,
                    "with namespaceHTMLElements=%s the DOM back-end creates a %s element with %s: its namespace is dropped, the parser then "
                    "treats the foreign subtree as HTML, and the tree differs from the ElementTree back-end's" % (
                        default is not None, nsk, made[0][0] if made else "nothing"),
                    {"default": default, "namespace": nsk}, detail={"default": default, "namespace": nsk, "call": made[0][0] if made else None})
    # ---- C04.13 `seq[seq.index(x) - 1]` wraps around to the last element when x is first: the element before the first child
    # does not exist, and Python silently hands out the *last* one
    r.rule("C04.13", "`[index - 1]` on a position obtained from .index() is guarded against index 0 (or argued to be >= 1)", floor=2)
    ARGUED_NONZERO = {
        "InBodyPhase.endTagFormatting": "the formatting element is never the root html element (index 0 of the stack of open elements)",
        "TreeBuilder.getTableMisnestedNodePosition": "a table element is never the root html element (index 0 of the stack of open elements)",
    }
    n13 = 0
    for rel in ("html5parser.py", "treebuilders/base.py", "treebuilders/etree.py", "treebuilders/dom.py"):
        for f in ctx.repo.module(rel).all_functions:
            idx_vars = {s.targets[0].id for s in walk_no_nested(f.node) if isinstance(s, ast.Assign) and isinstance(s.targets[0], ast.Name)
                        and isinstance(s.value, ast.Call) and isinstance(s.value.func, ast.Attribute) and s.value.func.attr == "index"}
            subs = []
            for sc in walk_no_nested(f.node):
                if isinstance(sc, ast.Subscript) and isinstance(sc.slice, ast.BinOp) and isinstance(sc.slice.op, ast.Sub) and \
                        isinstance(sc.slice.right, ast.Constant) and sc.slice.right.value == 1:
                    left = sc.slice.left
                    if (isinstance(left, ast.Name) and left.id in idx_vars) or \
                            (isinstance(left, ast.Call) and isinstance(left.func, ast.Attribute) and left.func.attr == "index"):
                        subs.append(sc)
            if not subs:
                continue
            cfg = CFG(f.node)
            for sc in subs:
                n13 += 1
                v = norm(sc.slice.left)
                loc = cfg.locate(sc)
                pos_tests = ("%s > 0" % v, "%s >= 1" % v, "%s != 0" % v, v, "0 < %s" % v)
                guarded = bool(loc) and all(cfg.dominated_by(l, lambda n, lab: n.kind == "test" and (
                    (norm(n.ast) in pos_tests and lab is True) or (norm(n.ast) in ("%s == 0" % v, "not %s" % v, "%s < 1" % v, "%s <= 0" % v, "0 >= %s" % v, "1 > %s" % v, "0 == %s" % v) and lab is False))) for l in loc)
                key = "index-minus-one::%s::%s" % (f.qual, norm(sc)[-40:])
                if guarded:
                    r.ok("C04.13", key, "%s:%d" % (rel, sc.lineno), detail={"guarded": True})
                elif f.qual in ARGUED_NONZERO or f.qual.split(".", 1)[-1] in ARGUED_NONZERO:
                    r.ok("C04.13", key, "%s:%d" % (rel, sc.lineno), detail={"argued": ARGUED_NONZERO.get(f.qual) or ARGUED_NONZERO.get(f.qual.split(".", 1)[-1])})
                else:
                    r.bad("C04.13", key, "%s:%d" % (rel, sc.lineno),
                          "%s reads `%s` without a test that the position is not 0: when the node is the first one, index -1 silently selects "
                          "the *last* element (text foster-parented before a table that is its parent's first child lands after the last "
                          "child instead)" % (f.qual, norm(sc)[:60]), {"function": f.qual})
    if n13 < 2:
        raise AnalysisError("C04.13 matched %d `[index - 1]` sites" % n13)
    # ---- C04.3b: `childNodes` is a property in the etree back-end (getter returns the shadow list, setter clears both
    # lists): mutating the returned list in place changes the shadow list only
    n3b = 0
    for rel in ("treebuilders/base.py", "treebuilders/etree.py", "treebuilders/dom.py", "html5parser.py"):
        for f in ctx.repo.module(rel).all_functions:
            for st in walk_no_nested(f.node):
                tgt = None
                if isinstance(st, ast.Delete):
                    for t in st.targets:
                        if isinstance(t, ast.Subscript) and isinstance(t.value, ast.Attribute) and t.value.attr == "childNodes":
                            tgt = norm(st)
                elif isinstance(st, ast.Call) and isinstance(st.func, ast.Attribute) and isinstance(st.func.value, ast.Attribute) \
                        and st.func.value.attr == "childNodes" and st.func.attr in ("append", "remove", "insert", "pop", "clear", "extend", "sort", "reverse"):
                    tgt = norm(st)
                elif isinstance(st, ast.Assign) and isinstance(st.targets[0], ast.Subscript) and \
                        isinstance(st.targets[0].value, ast.Attribute) and st.targets[0].value.attr == "childNodes":
                    tgt = norm(st)
                if tgt:
                    n3b += 1
                    r.bad("C04.3", "in-place::%s::%s" % (f.qual, tgt[:40]), "%s:%d" % (rel, st.lineno),
                          "`%s` mutates the list returned by the childNodes property in place: in the ElementTree back-end that is "
                          "only the shadow list, the real children stay (nodes are duplicated / not moved)" % tgt)
    uses = [f for rel in ("treebuilders/base.py",) for f in ctx.repo.module(rel).all_functions
            if any(isinstance(x, ast.Assign) and isinstance(x.targets[0], ast.Attribute) and x.targets[0].attr == "childNodes"
                   for x in walk_no_nested(f.node))]
    r.check("C04.3", any(f.qual == "Node.reparentChildren" for f in uses), "reparent-clears-through-property", base_node.where,
            "base.Node.reparentChildren no longer clears the children by assigning the childNodes property")
    prop = et_el.assigns.get("childNodes")
    r.check("C04.3", prop is not None and norm(prop) == "property(_getChildNodes, _setChildNodes)", "etree-childNodes-property", et_el.where,
            "etree Element.childNodes is no longer the (getter, setter) property pair")
    setter = et_el.methods.get("_setChildNodes")
    ssrc = " ".join(norm(setter.node).split()) if setter else ""
    r.idiom("C04.3", "del self._element[:]" in ssrc and "self._childNodes = []" in ssrc, "etree-setter-clears-both", et_el.where,
            "the childNodes setter does not clear both the ElementTree children and the shadow list",
            wrong=[(setter is not None and ("_element" not in ssrc or "_childNodes" not in ssrc), None)])

    # ---- C04.7: attribute keys given as (prefix, local, namespace) tuples use the namespace in both back-ends
    for cls, label, meth in ((et_el, "etree", "_setAttributes"), (dm_el, "dom", "setAttributes")):
        m = cls.methods.get(meth)
        if m is None:
            raise AnalysisError("%s attribute setter vanished" % label)
        cfg = CFG(m.node)
        tests = [x for x in cfg.nodes if x.kind == "test" and norm(x.ast).startswith("isinstance(") and norm(x.ast).endswith(", tuple)")]
        if len(tests) != 1:
            raise AnalysisError("%s %s: tuple-key test not found" % (label, meth))
        keyvar = norm(tests[0].ast.args[0])

        def uses_ns(x, keyvar=keyvar):
            if x.ast is None or x.kind == "loopiter":
                return False
            return any(isinstance(y, ast.Subscript) and norm(y.value) == keyvar and isinstance(y.slice, ast.Constant) and y.slice.value == 2
                       for y in ast.walk(x.ast))
        # from the true edge of the test, every path to the end of the loop body / exit passes a use of key[2]
        starts = [mm for mm, lab in tests[0].succ if lab is True]
        par = cfg.reach_forward([tests[0]], uses_ns, lambda src, dst, lab, t=tests[0]: not (src is t and lab is False))
        escaped = [cfg.nodes[i] for i in par if cfg.nodes[i].kind in ("loopiter", "exit")]
        r.check("C04.7", not escaped and bool(starts), "%s::tuple-attribute-uses-namespace" % label, m.where,
                "%s %s handles a (prefix, local, namespace) attribute key on some path without using the namespace: the "
                "attribute is stored un-namespaced in this back-end only" % (label, meth), detail={"backend": label})

    # ---- C04.4
    for cls, label in ((et_el, "etree"), (dm_el, "dom")):
        for nm, m in cls.methods.items():
            for c in walk_no_nested(m.node):
                if isinstance(c, ast.Call) and isinstance(c.func, ast.Attribute) and isinstance(c.func.value, ast.Name) \
                        and c.func.value.id == "self":
                    target = cls.find_method(c.func.attr)
                    key = "%s::%s calls self.%s" % (label, nm, c.func.attr)
                    if target is None and c.func.attr in cls.assigns:
                        target = True
                    if target is None:
                        # reachable only if the loop it sits in can run: report as observation, not as a violation
                        r.note("observation (outside C04's statement): %s %s.%s calls undefined self.%s() at %s:%d"
                               % (label, cls.name, nm, c.func.attr, m.module.rel, c.lineno))
                        r.ok("C04.4", key, "%s:%d" % (m.module.rel, c.lineno))
                    else:
                        r.ok("C04.4", key, "%s:%d" % (m.module.rel, c.lineno))

    # ---- C04.5
    for base, pairs in ((base_node, ((et_el, "etree"), (dm_el, "dom"))), (base_tb, ((et_tb, "etree"), (dm_tb, "dom")))):
        for cls, label in pairs:
            for nm, m in cls.methods.items():
                bm = base.methods.get(nm)
                if bm is None or nm.startswith("__"):
                    continue
                def sig(fn):
                    a = fn.node.args
                    names = [x.arg for x in a.args]
                    nd = len(a.defaults)
                    return [(n, i >= len(names) - nd) for i, n in enumerate(names)]
                sb, sc = sig(bm), sig(m)
                # an override may add defaulted parameters; the base ones must be kept in order
                # names may differ (calls are positional); arity and defaultedness must be compatible
                ok = len(sc) >= len(sb) and all(d for _, d in sc[len(sb):]) \
                    and all(cd or not bd for (_, bd), (_, cd) in zip(sb, sc))
                r.check("C04.5", ok, "%s::%s.%s" % (label, base.name, nm), m.where,
                        "%s %s.%s has parameters %s, base has %s" % (label, cls.name, nm, sc, sb),
                        detail={"method": nm})

    representation_limits(ctx)
    child_list_ownership(ctx)
    clone_identity(ctx)


def _stdlib_source(dotted):
    """syntax tree of a standard-library module, located without importing it"""
    import importlib.util
    import os
    import sysconfig
    spec = importlib.util.find_spec(dotted)
    path = spec.origin if spec is not None and spec.origin and spec.origin.endswith(".py") else None
    if path is None:
        # frozen standard-library modules (codecs, os, ...) still ship their source
        cand = os.path.join(sysconfig.get_paths()["stdlib"], *dotted.split(".")) + ".py"
        path = cand if os.path.exists(cand) else None
    if path is None:
        return None
    with open(path, encoding="utf-8") as fh:
        return ast.parse(fh.read())


def representation_limits(ctx, rid_doctype="C04.14", rid_clark="C04.15"):
    """Two places where one back-end's *representation* cannot hold what the tokenizer can produce, so the two trees differ:

    C04.14  the DOM back-end hands the doctype name to `createDocumentType`, whose first parameter is a *qualified name*:
            minidom's DocumentType.__init__ splits it at the colon and keeps the local part (read off the standard library's
            source, not assumed).  `<!doctype a:b>` is named `b` in the DOM tree and `a:b` in the ElementTree.
    C04.15  the ElementTree back-end uses a plain attribute name as the key of `Element.attrib`; ElementTree reads a key of the
            form `{uri}local` as a namespaced name (Clark notation), and so does html5lib's own etree walker.  The tokenizer
            accepts `{` in attribute names, so `<p {a}b=1>` holds the attribute (namespace a, b) in ElementTree and
            (no namespace, `{a}b`) in the DOM."""
    r = ctx.r
    repo = ctx.repo
    if rid_doctype:
        r.rule(rid_doctype, "the DOM back-end keeps the doctype name the token carries", floor=1)
        f = repo.module("treebuilders/dom.py").find_class("TreeBuilder").methods.get("insertDoctype")
        if f is None:
            raise AnalysisError("dom TreeBuilder.insertDoctype vanished")
        calls = [c for c in ast.walk(f.node) if isinstance(c, ast.Call) and isinstance(c.func, ast.Attribute) and c.func.attr == "createDocumentType"]
        # does minidom's DocumentType split the qualified name?
        splits = None
        tree = _stdlib_source("xml.dom.minidom")
        if tree is not None:
            for c in ast.walk(tree):
                if isinstance(c, ast.ClassDef) and c.name == "DocumentType":
                    init = [m for m in c.body if isinstance(m, ast.FunctionDef) and m.name == "__init__"]
                    if init:
                        splits = any(isinstance(a, ast.Assign) and isinstance(a.value, ast.Call) and norm(a.value.func) == "_nssplit"
                                     for a in ast.walk(init[0]))
        raw = len(calls) == 1 and calls[0].args and isinstance(calls[0].args[0], ast.Name)
        restored = any(isinstance(a, ast.Assign) and any(isinstance(t, ast.Attribute) and t.attr in ("name", "nodeName") for t in a.targets)
                       for a in ast.walk(f.node))
        r.idiom(rid_doctype, bool(calls) and (restored or splits is False), "dom-doctype-name", f.where,
                "dom insertDoctype: how the doctype name reaches the DOM was not recognised (minidom source %s)" % ("found" if tree else "not found"),
                wrong=[(bool(raw) and splits is True and not restored,
                        "the DOM back-end passes the doctype name to createDocumentType() as a qualified name; minidom's DocumentType "
                        "splits it at the colon and keeps the local part (and None for an empty name): `<!doctype a:b>` is named `b` in "
                        "the DOM tree, `a:b` in the ElementTree")],
                detail={"minidom_splits_qualified_name": splits})
    if rid_clark:
        r.rule(rid_clark, "a plain attribute name is never stored under an ElementTree key that reads as a namespaced name", floor=1)
        el = repo.module("treebuilders/etree.py").find_class("Element")
        f = el.methods.get("_setAttributes") if el else None
        if f is None:
            raise AnalysisError("etree Element._setAttributes vanished")
        stores = [a for a in ast.walk(f.node) if isinstance(a, ast.Assign) and isinstance(a.targets[0], ast.Subscript)] + \
                 [c for c in ast.walk(f.node) if isinstance(c, ast.Call) and isinstance(c.func, ast.Attribute) and c.func.attr == "set"]
        brace_test = any(isinstance(t, (ast.If, ast.IfExp)) and ("'{'" in norm(t.test)) for t in ast.walk(f.node))
        verbatim = any(isinstance(a, ast.Assign) and isinstance(a.value, ast.Name) and isinstance(a.targets[0], ast.Name) and
                       a.value.id in {x.id for x in ast.walk(f.node) if isinstance(x, ast.Name) and isinstance(x.ctx, ast.Store)}
                       for a in ast.walk(f.node)) or \
            any(isinstance(a, ast.Assign) and isinstance(a.targets[0], ast.Subscript) and isinstance(a.targets[0].slice, ast.Name) and
                isinstance(p, ast.For) for p in ast.walk(f.node) if isinstance(p, ast.For) for a in p.body if isinstance(a, ast.Assign))
        walker = repo.module("treewalkers/etree.py")
        reads_clark = any(isinstance(c, ast.Call) and norm(c.func).endswith("tag_regexp.match") and c.args and not norm(c.args[0]).endswith(".tag")
                          for c in ast.walk(walker.tree))
        r.idiom(rid_clark, bool(stores) and brace_test, "etree-plain-attribute-key", f.where,
                "etree _setAttributes: how plain attribute names become ElementTree keys was not recognised",
                wrong=[(bool(stores) and verbatim and not brace_test,
                        "the ElementTree back-end uses a plain attribute name verbatim as the key of Element.attrib; a name the tokenizer "
                        "produced that begins with `{..}` reads as Clark notation%s: `<p {a}b=1>` has the attribute (namespace a, b) in "
                        "ElementTree and (no namespace, `{a}b`) in the DOM, and `<p {a}=1>` gives the walker an empty attribute name"
                        % (" (html5lib's etree walker splits every attribute key with tag_regexp)" if reads_clark else ""))],
                detail={"walker_splits_attribute_keys": reads_clark})


LIST_MUT = ("append", "insert", "extend", "remove", "pop", "clear", "sort", "reverse", "__setitem__", "__delitem__", "__iadd__")
CHILD_LIST_OWNERS = ("appendChild", "insertBefore", "removeChild", "_setChildNodes", "__init__")


def child_list_ownership(ctx, rid="C04.16"):
    """C04.16: in the ElementTree back-end a node's children live in two lists (the ElementTree children and the shadow list of
    wrappers) and each wrapper carries `.parent`.  The three are kept in step by the attach / detach primitives only (C04.2 and
    C04.3 check those); so the lists are written *only* through `self.` inside the primitives and the childNodes setter.  Any
    other write -- another node's lists, a bulk extend in a helper -- moves nodes without their `.parent`, which foster parenting
    and the adoption agency consult (`lastNode.parent.removeChild(lastNode)`)."""
    r = ctx.r
    r.rule(rid, "etree: the child lists of a wrapper are written only by that wrapper's own attach / detach primitives", floor=8)
    mod = ctx.repo.module("treebuilders/etree.py")
    n = 0
    for f in mod.all_functions:
        for st in walk_no_nested(f.node):
            recv = kind = None
            if isinstance(st, ast.Call) and isinstance(st.func, ast.Attribute) and st.func.attr in LIST_MUT:
                recv, kind = st.func.value, st.func.attr
            elif isinstance(st, ast.Delete):
                for t in st.targets:
                    if isinstance(t, ast.Subscript):
                        recv, kind = t.value, "del"
            elif isinstance(st, ast.Assign) and any(isinstance(t, ast.Subscript) for t in st.targets):
                recv, kind = next(t for t in st.targets if isinstance(t, ast.Subscript)).value, "store"
            elif isinstance(st, ast.AugAssign):
                recv, kind = st.target, "augmented"
            elif isinstance(st, ast.Assign) and any(isinstance(t, ast.Attribute) and t.attr == "_childNodes" for t in st.targets):
                recv, kind = next(t for t in st.targets if isinstance(t, ast.Attribute) and t.attr == "_childNodes"), "rebind"
            ch = attr_chain(recv) if recv is not None else None
            if not ch or ch[-1] not in ("_childNodes", "_element") or len(ch) < 2:
                continue
            n += 1
            owner = ch[:-1]
            key = "child-list-write::%s::%s::%s" % (f.qual, ".".join(ch), kind)
            where = "treebuilders/etree.py:%d" % st.lineno
            ok = owner == ["self"] and f.name in CHILD_LIST_OWNERS
            sets_parent = any(isinstance(a, ast.Assign) and any(isinstance(t, ast.Attribute) and t.attr == "parent" for t in a.targets)
                              for a in walk_no_nested(f.node))
            r.idiom(rid, ok, key, where,
                    "%s writes the child list %s outside the attach / detach primitives" % (f.qual, ".".join(ch)),
                    wrong=[(not sets_parent,
                            "%s writes the child list `%s` (%s) and stores no `.parent`: the nodes it moves keep their old parent, so a "
                            "later `node.parent.removeChild(node)` (adoption agency, foster parenting) addresses the wrong element "
                            "(ValueError, or the node appears twice)" % (f.qual, ".".join(ch), kind))],
                    data={"function": f.qual, "list": ".".join(ch), "kind": kind}, detail={"function": f.qual, "list": ".".join(ch), "kind": kind})
    r.idiom(rid, n >= 8, "child-list-writes-found", "treebuilders/etree.py", "only %d writes of the child lists were recognised" % n)


def clone_identity(ctx, rid="C04.17"):
    """C04.17: a shallow clone (adoption agency, reconstruction of formatting elements) is the same element: same name and the
    same *stored* namespace.  `nameTuple` is a normalised view (namespace None reads as the XHTML namespace), so a clone built
    from it turns un-namespaced elements (namespaceHTMLElements=False) into XHTML-namespaced ones in this back-end only."""
    r = ctx.r
    r.rule(rid, "cloneNode builds the clone from the element's own name and stored namespace", floor=2)
    et_el, dm_el = backends(ctx)[0:2] if False else (None, None)
    mod = ctx.repo.module("treebuilders/etree.py")
    f = next((x for x in mod.all_functions if x.name == "cloneNode" and x.cls is not None and x.cls.name == "Element"), None)
    if f is None:
        r.idiom(rid, False, "etree-clone", "treebuilders/etree.py", "etree Element.cloneNode not found")
    else:
        ctor = [c for c in walk_no_nested(f.node) if isinstance(c, ast.Call) and (norm(c.func) in ("type(self)", "Element", "self.__class__")) and len(c.args) >= 1]
        src = {}
        for a in walk_no_nested(f.node):
            if isinstance(a, ast.Assign) and len(a.targets) == 1:
                t = a.targets[0]
                if isinstance(t, ast.Name):
                    src[t.id] = norm(a.value)
                elif isinstance(t, (ast.Tuple, ast.List)):
                    for i, e in enumerate(t.elts):
                        if isinstance(e, ast.Name):
                            src[e.id] = "%s[%d]" % (norm(a.value), i)
        if len(ctor) != 1:
            r.idiom(rid, False, "etree-clone", f.where, "the constructor call of etree cloneNode was not recognised")
        else:
            args = [norm(x) for x in ctor[0].args] + ["%s=%s" % (k.arg, norm(k.value)) for k in ctor[0].keywords]
            resolved = [src.get(x, x) for x in args]
            ok = resolved[:2] == ["self.name", "self.namespace"] or set(resolved) == {"self.name", "namespace=self.namespace"}
            r.idiom(rid, ok, "etree-clone", "treebuilders/etree.py:%d" % ctor[0].lineno,
                    "etree cloneNode constructs the clone from %s (not recognised)" % resolved,
                    wrong=[(any("nameTuple" in x for x in resolved),
                            "etree cloneNode takes the clone's namespace from `nameTuple`, a normalised view in which namespace None reads as "
                            "the XHTML namespace: with namespaceHTMLElements=False a re-opened formatting element (`<p><i>a</p>b`) becomes "
                            "`{http://www.w3.org/1999/xhtml}i` in the ElementTree back-end only")],
                    detail={"arguments": resolved})
    dmod = ctx.repo.module("treebuilders/dom.py")
    g = next((x for x in dmod.all_functions if x.name == "cloneNode" and x.cls is not None and x.cls.name == "NodeBuilder"), None)
    if g is None:
        r.idiom(rid, False, "dom-clone", "treebuilders/dom.py", "dom NodeBuilder.cloneNode not found")
    else:
        calls = [c for c in walk_no_nested(g.node) if isinstance(c, ast.Call) and norm(c.func) == "self.element.cloneNode"]
        shallow = len(calls) == 1 and len(calls[0].args) == 1 and ctx.ce.try_eval(calls[0].args[0], dmod) is False
        r.idiom(rid, shallow, "dom-clone", g.where, "dom cloneNode does not delegate to a shallow xml.dom cloneNode(False)",
                wrong=[(len(calls) == 1 and len(calls[0].args) == 1 and ctx.ce.try_eval(calls[0].args[0], dmod) is True,
                        "dom cloneNode makes a deep copy: the clone of a formatting element carries the original's children")])


def thorough(ctx):
    from .. import selftest
    selftest.run(ctx, sys.modules[__name__])


def mutants():
    from ..selftest import TextMutant as T
    return [
        T("adoption-no-detach", "html5parser.py", "                # Remove lastNode from its parents, if any\n                if lastNode.parent:\n                    lastNode.parent.removeChild(lastNode)\n                node.appendChild(lastNode)", "                node.appendChild(lastNode)", "C04.9"),
        T("cache-key-names-only", "_utils.py", "        kwargs_tuple = tuple(kwargs.items())", "        kwargs_tuple = tuple(sorted(kwargs))", "C04.10"),
        T("reparent-keeps-text", "treebuilders/etree.py", "            self._element.text = \"\"\n            base.Node.reparentChildren(self, newParent)",
          "            base.Node.reparentChildren(self, newParent)", "C04.6"),
        T("hascontent-no-comments", "treebuilders/etree.py", "            return bool(self._element.text or len(self._element))",
          "            return bool(self._element.text or [c for c in self._element if c.tag is not ElementTreeCommentType])", "C04.8"),
        T("hascontent-no-text", "treebuilders/etree.py", "            return bool(self._element.text or len(self._element))",
          "            return bool(len(self._element))", "C04.8"),
        T("attrlist-getattribute", "treebuilders/dom.py", "                return self.element.attributes[name].value", "                return self.element.getAttribute(name)", "C04.8"),
        T("insertBefore-no-shadow", "treebuilders/etree.py",
          "            self._element.insert(index, node._element)\n            self._childNodes.insert(index, node)\n",
          "            self._element.insert(index, node._element)\n", "C04.3"),
        T("remove-no-shadow", "treebuilders/etree.py", "            self._childNodes.remove(node)\n            self._element.remove(node._element)",
          "            self._element.remove(node._element)", "C04.3"),
        T("append-no-parent", "treebuilders/etree.py", "            self._element.append(node._element)\n            node.parent = self",
          "            self._element.append(node._element)", "C04.2"),
        T("dom-remove-keeps-parent", "treebuilders/dom.py", "                self.element.removeChild(node.element)\n            node.parent = None",
          "                self.element.removeChild(node.element)", "C04.2"),
        T("dom-no-hascontent", "treebuilders/dom.py", "        def hasContent(self):\n            return self.element.hasChildNodes()\n", "", "C04.1"),
        T("etree-no-fragment", "treebuilders/etree.py", "        fragmentClass = DocumentFragment\n", "", "C04.1"),
        T("sig-change", "treebuilders/dom.py", "        def insertText(self, data, insertBefore=None):\n            text = self.element.ownerDocument",
          "        def insertText(self, data, before):\n            insertBefore = before\n            text = self.element.ownerDocument", "C04.5"),
        T("inserttext-overwrite", "treebuilders/etree.py", "                    if not self._element.text:\n                        self._element.text = \"\"\n                    self._element.text += data\n\n        def cloneNode",
          "                    self._element.text = data\n\n        def cloneNode", "C04.6"),
        T("clone-from-nametuple", "treebuilders/etree.py", "            element = type(self)(self.name, self.namespace)", "            namespace, name = self.nameTuple\n            element = type(self)(name, namespace)", "C04.17"),
        T("reparent-bulk-extend", "treebuilders/etree.py", "            base.Node.reparentChildren(self, newParent)",
          "            newParent._element.extend(self._element)\n            newParent._childNodes.extend(self._childNodes)\n            del self._element[:]\n            self._childNodes = []", "C04.16"),
        T("reparent-del-slice", "treebuilders/base.py", "            newParent.appendChild(child)\n        self.childNodes = []", "            newParent.appendChild(child)\n        del self.childNodes[:]", "C04.3"),
        T("dom-ns-dropped", "treebuilders/dom.py", "                        else:\n                            qualifiedName = name[1]\n                        self.element.setAttributeNS(name[2], qualifiedName,\n                                                    value)",
          "                            self.element.setAttributeNS(name[2], qualifiedName,\n                                                        value)\n                        else:\n                            self.element.setAttribute(name[1], value)", "C04.7"),
        T("shadow-insert-wrong-index", "treebuilders/etree.py", "            self._childNodes.insert(index, node)\n", "            self._childNodes.insert(0, node)\n", "C04.3"),
    ]


def preserving():
    from ..selftest import TextMutant as T
    return [
        T("swap-order", "treebuilders/etree.py", "            self._childNodes.append(node)\n            self._element.append(node._element)",
          "            self._element.append(node._element)\n            self._childNodes.append(node)", None),
    ]
