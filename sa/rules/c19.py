"""C19 -- the SAX adapter delivers a well-nested event stream equal to the tree.

R19.1 ORDER    startDocument < all startPrefixMapping < token loop < all endPrefixMapping < endDocument, each outside
               the token loop; both mapping loops range over the same mapping
R19.2 ARMS     StartTag/EmptyTag -> startElementNS (EmptyTag additionally endElementNS at once); EndTag -> endElementNS;
               both text kinds -> characters; Doctype/Comment -> nothing; start and end use identical name expressions
R19.3 TABLES   each prefix maps to one namespace; unadjustForeignAttributes inverts adjustForeignAttributes injectively
"""
from __future__ import annotations

import ast
import sys

from ..repo import AnalysisError, norm
from ..cfg import CFG, node_calls
from ..partition import MiniInterp, Opaque, FRESH

LEVEL = "other"
TECHNIQUE = ('CFG ordering of the document/prefix brackets; effect table of the token loop by branch partition; start-tag arm evaluated for attribute hand-over and qualified names; evaluated table checks')
CLAIM = ('to_sax emits exactly one startDocument/endDocument pair around everything, opens every prefix '
         'mapping before the first token and closes the same mappings after the last; per token type the '
         'event(s) emitted are the right ones with the same (namespace, local name) on start and end. Nesting '
         "therefore reduces to the balance of the walker's stream (C11). Text buffered across tokens, if any, "
         'is delivered after the loop.'
         " The attribute set handed to startElementNS is the token's, and the qualified name given for each adjusted foreign attribute is the one it had in the markup (start-tag arm evaluated).")
NOT_DECIDED = "balance of the incoming stream (C11's traversal); equality of a tree rebuilt from the events."
MODULES = ["treeadapters/sax.py", "constants.py"]
REL = "treeadapters/sax.py"
TYPES = ["Doctype", "Characters", "SpaceCharacters", "StartTag", "EndTag", "EmptyTag", "Comment", FRESH]


def run(ctx):
    r = ctx.r
    ce, repo = ctx.ce, ctx.repo
    r.explanation = "to_sax is checked on its CFG (bracketing order) and its token loop is decided per token type; the two constant tables are evaluated."
    r.not_decided = NOT_DECIDED
    r.rule("R19.1", "document and prefix-mapping brackets surround the token loop in the right order", floor=4)
    r.rule("R19.2", "per token type the right SAX events with identical names on start and end", floor=8)
    r.rule("R19.3", "prefix -> namespace is a function; the attribute un-adjust table is an injective inversion", floor=3)
    f = repo.func(REL, "to_sax")
    walker, handler = f.params()[:2]
    top = [s for s in f.node.body if not (isinstance(s, ast.Expr) and isinstance(s.value, ast.Constant))]
    kinds = []
    tok_loop = None
    for s in top:
        t = norm(s)
        if t == "%s.startDocument()" % handler:
            kinds.append("startDocument")
        elif t == "%s.endDocument()" % handler:
            kinds.append("endDocument")
        elif isinstance(s, ast.For) and norm(s.iter) in ("prefix_mapping.items()", "prefix_mapping", "prefix_mapping.keys()"):
            calls = [norm(c.func) for c in ast.walk(s) if isinstance(c, ast.Call) and norm(c.func).startswith(handler + ".")]
            kinds.append("loop:" + ",".join(c.split(".", 1)[1] for c in calls))
            if norm(s.iter) == "prefix_mapping.items()":
                tg = [e.id for e in s.target.elts] if isinstance(s.target, ast.Tuple) else []
            else:
                tg = [s.target.id] if isinstance(s.target, ast.Name) else []
            for c in ast.walk(s):
                if isinstance(c, ast.Call) and norm(c.func) == handler + ".startPrefixMapping":
                    r.check("R19.1", [norm(a) for a in c.args] == tg, "startPrefixMapping-args", "%s:%d" % (REL, c.lineno),
                            "startPrefixMapping is not called with (prefix, namespace)")
                if isinstance(c, ast.Call) and norm(c.func) == handler + ".endPrefixMapping":
                    r.check("R19.1", [norm(a) for a in c.args] == tg[:1], "endPrefixMapping-args", "%s:%d" % (REL, c.lineno),
                            "endPrefixMapping is not called with the prefix")
        elif isinstance(s, ast.For) and norm(s.iter) == walker:
            kinds.append("tokens")
            tok_loop = s
        else:
            kinds.append("other:" + t[:40])
    exp = ["startDocument", "loop:startPrefixMapping", "tokens", "loop:endPrefixMapping", "endDocument"]
    r.idiom("R19.1", kinds == exp, "bracket-order", f.where, "to_sax statement order is %s; expected %s" % (kinds, exp),
            wrong=[(sorted(kinds) == sorted(exp) and kinds != exp, None),
                   (all(not k.startswith("other") for k in kinds) and set(kinds) < set(exp), "to_sax no longer emits %s" % sorted(set(exp) - set(kinds)))],
            detail={"order": kinds})
    if tok_loop is None:
        raise AnalysisError("to_sax: token loop not found")
    # text that is buffered across tokens must be delivered when the stream ends
    tokv = tok_loop.target.id if isinstance(tok_loop.target, ast.Name) else None
    buffers = {norm(c.func.value) for c in ast.walk(tok_loop) if isinstance(c, ast.Call) and isinstance(c.func, ast.Attribute)
               and c.func.attr in ("append", "extend") and isinstance(c.func.value, ast.Name) and c.args and tokv and
               any(isinstance(x, ast.Name) and x.id == tokv for x in ast.walk(c.args[0]))}
    after = top[top.index(tok_loop) + 1:]
    for b in sorted(buffers):
        flushed = any(isinstance(c, ast.Call) and norm(c.func) == handler + ".characters" and
                      any(isinstance(x, ast.Name) and x.id == b for x in ast.walk(c)) for s_ in after for c in ast.walk(s_))
        r.check("R19.2", flushed, "buffer-flushed::%s" % b, "%s:%d" % (REL, tok_loop.lineno),
                "to_sax buffers token data in `%s` inside the token loop but does not deliver it after the loop: character data at "
                "the end of the stream (a fragment ending in text) never reaches the handler" % b, detail={"buffer": b})
    inner = [norm(c.func) for c in ast.walk(tok_loop) if isinstance(c, ast.Call)]
    r.check("R19.1", not any(x.endswith(("Document", "PrefixMapping")) for x in inner), "brackets-outside-loop", f.where,
            "document / prefix events are emitted inside the token loop")
    # R19.2
    tok = tok_loop.target.id
    interp = MiniInterp(ce, f.module)
    expected = {
        "StartTag": ["startElementNS"], "EmptyTag": ["startElementNS", "endElementNS"], "EndTag": ["endElementNS"],
        "Characters": ["characters"], "SpaceCharacters": ["characters"], "Doctype": [], "Comment": [],
    }
    names = set()
    for ty in TYPES:
        token = {"type": ty, "name": "x", "namespace": None, "data": {}}
        res = interp.run(tok_loop.body, {tok: token, handler: Opaque("handler")})
        evs = []
        for e in res.effects:
            if isinstance(e.node, ast.Expr) and isinstance(e.node.value, ast.Call) and norm(e.node.value.func).startswith(handler + "."):
                c = e.node.value
                evs.append(norm(c.func).split(".", 1)[1])
                if evs[-1] in ("startElementNS", "endElementNS"):
                    names.add((_through_helper(f.module, c.args[0]), norm(c.args[1])))
                if evs[-1] == "characters":
                    r.check("R19.2", norm(c.args[0]) == "%s['data']" % tok, "characters-arg", "%s:%d" % (REL, c.lineno),
                            "characters() is not given the token's data")
        if ty == FRESH:
            r.check("R19.2", not evs, "type=<other>", f.where, "an unknown token type produces events %s" % evs)
            continue
        r.check("R19.2", evs == expected[ty], "type=%s" % ty, f.where, "a %s token produces %s; expected %s" % (ty, evs, expected[ty]),
                detail={"type": ty, "events": evs})
    r.check("R19.2", names == {("(%s['namespace'], %s['name'])" % (tok, tok), "%s['name']" % tok)}, "same-name-on-start-and-end", f.where,
            "start and end element events use different name expressions: %s" % sorted(names))
    attrs = [c for c in ast.walk(tok_loop) if isinstance(c, ast.Call) and norm(c.func) == "AttributesNSImpl"]
    # evaluated: the start-tag arm is run on a token that carries every adjusted foreign attribute plus an ordinary one; the
    # attribute set handed over must be the token's, and the qualified name given for each foreign attribute must be the one it had
    # in the markup (the inverse of adjustForeignAttributes: `xlink:href`, `xml:lang`, and plain `xmlns` for the prefix-less one)
    adj_ = ce.const("constants.py", "adjustForeignAttributes")
    data_ = {(None, "class"): "c"}
    for q_, (pfx_, local_, ns_) in adj_.items():
        data_[(ns_, local_)] = q_
    handed = []

    def attrs_hook(node, env):
        if isinstance(node, ast.Call) and norm(node.func) == "AttributesNSImpl" and len(node.args) == 2:
            handed.append((ce.eval(node.args[0], f.module, env), ce.eval(node.args[1], f.module, env)))
            return Opaque("attrs")
        return NotImplemented
    evaluated = False
    try:
        MiniInterp(ce, f.module, expr_hook=attrs_hook).run(tok_loop.body, {tok: {"type": "StartTag", "name": "svg", "namespace": "http://www.w3.org/2000/svg", "data": dict(data_)},
                                                                              handler: Opaque("handler")})
        evaluated = len(handed) == 1 and isinstance(handed[0][0], dict) and isinstance(handed[0][1], dict)
    except Exception:      # noqa: BLE001
        evaluated = False
    if evaluated:
        got_attrs, qn = handed[0]
        r.check("R19.2", got_attrs == data_, "attributes-all-handed-over", f.where,
                "to_sax hands startElementNS %d of the token's %d attributes: a tree rebuilt from the events lacks %s"
                % (len(got_attrs), len(data_), sorted(set(data_) - set(got_attrs))[:3]))
        wrong_q = {k: qn.get(k) for k, v in data_.items() if k[0] is not None and qn.get(k) != v}
        r.check("R19.2", not wrong_q, "foreign-attribute-qnames", f.where,
                "the qualified names given for foreign attributes differ from the ones in the markup: %s (expected %s) -- consumers that "
                "read qualified names (XMLGenerator, SAX2DOM) see a different attribute"
                % (sorted(wrong_q.items(), key=str)[:2], [data_[k] for k, _ in sorted(wrong_q.items(), key=str)[:2]]))
    r.idiom("R19.2", evaluated or (len(attrs) == 1 and [norm(a) for a in attrs[0].args] == ["%s['data']" % tok, "unadjustForeignAttributes"]),
            "attributes", f.where, "attributes are not passed as AttributesNSImpl(token['data'], unadjustForeignAttributes)",
            wrong=[(len(attrs) == 1 and bool(attrs[0].args) and any(isinstance(x, (ast.DictComp, ast.GeneratorExp, ast.ListComp)) and
                                                                   any(g.ifs for g in x.generators) for x in ast.walk(attrs[0].args[0])),
                    "to_sax filters the attributes it hands to startElementNS (%s): a tree rebuilt from the events lacks them (xmlns / "
                    "xmlns:xlink on foreign elements)" % (norm(attrs[0].args[0])[:70] if attrs and attrs[0].args else ""))])
    # R19.3
    adj = ce.const("constants.py", "adjustForeignAttributes")
    un = ce.const("constants.py", "unadjustForeignAttributes")
    byprefix = {}
    for q, (prefix, local, ns) in adj.items():
        if prefix is not None:
            byprefix.setdefault(prefix, set()).add(ns)
    r.check("R19.3", all(len(v) == 1 for v in byprefix.values()) and len(byprefix) >= 3, "prefix-function", "constants.py",
            "a prefix is bound to several namespaces: %s" % {k: sorted(v) for k, v in byprefix.items() if len(v) > 1})
    r.check("R19.3", len(un) == len(adj) and all(un.get((ns, local)) == q for q, (prefix, local, ns) in adj.items()),
            "unadjust-inverts", "constants.py", "unadjustForeignAttributes is not the inverse of adjustForeignAttributes")
    # prefix_mapping is built from the same table, skipping the None prefix
    mod = f.module
    loops = [s for s in mod.tree.body if isinstance(s, ast.For)]
    ok = len(loops) == 1 and norm(loops[0].iter) == "adjustForeignAttributes.values()" and \
        " ".join(norm(loops[0]).split()).endswith("if prefix is not None: prefix_mapping[prefix] = namespace")
    r.idiom("R19.3", ok, "prefix-mapping-built", REL, "prefix_mapping is no longer built from adjustForeignAttributes (prefix -> namespace)")


def thorough(ctx):
    from .. import selftest
    selftest.run(ctx, sys.modules[__name__])


def _through_helper(mod, expr):
    """text of `expr`, with a call of a one-line module-level helper `def h(p): return E` replaced by E[p := argument]"""
    if isinstance(expr, ast.Call) and isinstance(expr.func, ast.Name) and len(expr.args) == 1 and not expr.keywords:
        h = mod.functions.get(expr.func.id)
        if h is not None and len(h.params()) == 1:
            body = [s for s in h.node.body if not (isinstance(s, ast.Expr) and isinstance(s.value, ast.Constant))]
            if len(body) == 1 and isinstance(body[0], ast.Return) and body[0].value is not None:
                import copy
                p = h.params()[0]

                class Sub(ast.NodeTransformer):
                    def visit_Name(self, node):
                        return copy.deepcopy(expr.args[0]) if node.id == p else node
                return norm(Sub().visit(copy.deepcopy(body[0].value)))
    return norm(expr)


def _buffer_text(tree):
    """characters are collected in a list and handed over only when the next tag arrives (never after the loop)"""
    import ast as _a
    for fn in tree.body:
        if isinstance(fn, _a.FunctionDef) and fn.name == "to_sax":
            for i, st in enumerate(fn.body):
                if isinstance(st, _a.For) and isinstance(st.iter, _a.Name) and st.iter.id == "walker":
                    chain = st.body[1]
                    while isinstance(chain, _a.If):
                        if "Characters" in _a.unparse(chain.test):
                            chain.body = _a.parse("buf.append(token['data'])").body
                            break
                        chain = chain.orelse[0] if chain.orelse else None
                    st.body.insert(1, _a.parse("if type in ('StartTag', 'EmptyTag', 'EndTag') and buf:\n    handler.characters(''.join(buf))\n    del buf[:]").body[0])
                    fn.body.insert(i, _a.parse("buf = []").body[0])
                    return True
    return False


def mutants():
    from ..selftest import TextMutant as T, AstMutant
    return [
        T("drop-xmlns-attrs", REL, "            attrs = AttributesNSImpl(token[\"data\"],\n                                     unadjustForeignAttributes)", "            attrs = AttributesNSImpl({k: v for k, v in token[\"data\"].items() if k[0] is None},\n                                     unadjustForeignAttributes)", "R19.2"),
        AstMutant("text-buffered-never-flushed", REL, _buffer_text, "R19.2"),
        T("emptytag-no-end", REL, "            if type == \"EmptyTag\":\n                handler.endElementNS((token[\"namespace\"], token[\"name\"]),\n                                     token[\"name\"])\n", "", "R19.2"),
        T("end-wrong-ns", REL, "        elif type == \"EndTag\":\n            handler.endElementNS((token[\"namespace\"], token[\"name\"]),",
          "        elif type == \"EndTag\":\n            handler.endElementNS((None, token[\"name\"]),", "R19.2"),
        T("space-dropped", REL, "        elif type in (\"Characters\", \"SpaceCharacters\"):", "        elif type in (\"Characters\",):", "R19.2"),
        T("enddocument-first", REL, "    for prefix, namespace in prefix_mapping.items():\n        handler.endPrefixMapping(prefix)\n    handler.endDocument()",
          "    handler.endDocument()\n    for prefix, namespace in prefix_mapping.items():\n        handler.endPrefixMapping(prefix)", "R19.1"),
        T("mapping-in-loop", REL, "        if type == \"Doctype\":\n            continue", "        if type == \"Doctype\":\n            handler.startPrefixMapping(\"xml\", \"x\")\n            continue", "R19.1"),
        T("xlink-ns", "constants.py", "    \"xlink:type\": (\"xlink\", \"type\", namespaces[\"xlink\"]),", "    \"xlink:type\": (\"xlink\", \"type\", namespaces[\"xml\"]),", "R19.3"),
    ]


def preserving():
    return []
