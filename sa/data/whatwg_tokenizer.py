"""Reference transition table of the WHATWG tokenizer, transcribed from the standard's
"Tokenization" section for the state inventory html5lib implements (the inventory of the
revision html5lib was written against; character references are the "consume a character
reference" sub-algorithm, reached through the two "character reference in ..." states and
the attribute-value states).

Written by hand from the standard, state by state -- NOT generated from html5lib's source.
Only token-visible behaviour is transcribed; parse errors are omitted (C02 does not compare
them).  Three presentation choices follow html5lib and are each justified in DESIGN.md C02.2:
  * end-tag tokens of the RCDATA/RAWTEXT/script end-tag-name states are created when the
    name is complete, with name := temporary buffer (the standard builds both in lock step);
  * the DOCTYPE token is created when the DOCTYPE keyword is recognised;
  * case folding of tag / attribute / doctype names and of the temporary buffer is compared
    case-insensitively (html5lib lower-cases at emission; C02.6 checks that it does).

Classes: a literal character or string of alternatives, WS, UPPER, LOWER, ALPHA, NUL, EOF, ELSE.
Arm:     dict(ops=[...], to=<state or None>, re=<reconsume>, stop=<end of tokenization>)
Ops:     ("emit", text) ("new", kind) ("append", field, text) ("set", field, value) ("newattr", text)
         ("emit-token",) ("tmp-set", text) ("tmp-append", text) ("charref", ctx, allowed)
         text uses CUR for the current input character and TMP for the temporary buffer.
A state may be keyed by a condition: ("appropriate", True/False) / ("tmp_is_script", True/False).
"""
CUR = "\ue000"
TMP = "\ue001"
FFFD = "\ufffd"
WS, UPPER, LOWER, ALPHA, NUL, EOF, ELSE = "WS", "UPPER", "LOWER", "ALPHA", "NUL", "EOF", "ELSE"


def arm(ops=(), to=None, re=False, stop=False):
    return {"ops": list(ops), "to": to, "re": re, "stop": stop}


def emit(t):
    return ("emit", t)


def app(field, t):
    return ("append", field, t)


EMIT = ("emit-token",)
FQ = ("set", "correct", False)           # force-quirks flag on

STATES = {}

# ---------------------------------------------------------------- text-like states
STATES["data"] = {
    "&": arm(to="entityData"), "<": arm(to="tagOpen"), NUL: arm([emit(CUR)]), EOF: arm(stop=True), ELSE: arm([emit(CUR)])}
STATES["rcdata"] = {
    "&": arm(to="characterReferenceInRcdata"), "<": arm(to="rcdataLessThanSign"), NUL: arm([emit(FFFD)]),
    EOF: arm(stop=True), ELSE: arm([emit(CUR)])}
STATES["rawtext"] = {"<": arm(to="rawtextLessThanSign"), NUL: arm([emit(FFFD)]), EOF: arm(stop=True), ELSE: arm([emit(CUR)])}
STATES["scriptData"] = {"<": arm(to="scriptDataLessThanSign"), NUL: arm([emit(FFFD)]), EOF: arm(stop=True), ELSE: arm([emit(CUR)])}
STATES["plaintext"] = {NUL: arm([emit(FFFD)]), EOF: arm(stop=True), ELSE: arm([emit(CUR)])}

# ---------------------------------------------------------------- tags
STATES["tagOpen"] = {
    "!": arm(to="markupDeclarationOpen"), "/": arm(to="closeTagOpen"),
    ALPHA: arm([("new", "StartTag"), app("name", CUR)], to="tagName"),
    "?": arm(to="bogusComment", re=True),
    ELSE: arm([emit("<")], to="data", re=True)}
STATES["closeTagOpen"] = {
    ALPHA: arm([("new", "EndTag"), app("name", CUR)], to="tagName"),
    ">": arm(to="data"), EOF: arm([emit("</")], to="data", re=True), ELSE: arm(to="bogusComment", re=True)}
STATES["tagName"] = {
    WS: arm(to="beforeAttributeName"), "/": arm(to="selfClosingStartTag"), ">": arm([EMIT], to="data"),
    NUL: arm([app("name", FFFD)]), EOF: arm(to="data", re=True), ELSE: arm([app("name", CUR)])}

for kind, text in (("rcdata", "rcdata"), ("rawtext", "rawtext"), ("scriptData", "scriptData")):
    lts = {"/": arm([("tmp-set", "")], to=kind + "EndTagOpen"), ELSE: arm([emit("<")], to=text, re=True)}
    if kind == "scriptData":
        lts["!"] = arm([emit("<!")], to="scriptDataEscapeStart")
    STATES[kind + "LessThanSign"] = lts
    STATES[kind + "EndTagOpen"] = {
        ALPHA: arm([("tmp-append", CUR)], to=kind + "EndTagName"), ELSE: arm([emit("</")], to=text, re=True)}
    for appropriate in (True, False):
        t = {ALPHA: arm([("tmp-append", CUR)]), ELSE: arm([emit("</" + TMP)], to=text, re=True)}
        if appropriate:
            mk = [("new", "EndTag"), app("name", TMP)]
            t[WS] = arm(mk, to="beforeAttributeName")
            t["/"] = arm(mk, to="selfClosingStartTag")
            t[">"] = arm(mk + [EMIT], to="data")
        STATES[(kind + "EndTagName", ("appropriate", appropriate))] = t

# ---------------------------------------------------------------- script data escapes
STATES["scriptDataEscapeStart"] = {"-": arm([emit("-")], to="scriptDataEscapeStartDash"), ELSE: arm(to="scriptData", re=True)}
STATES["scriptDataEscapeStartDash"] = {"-": arm([emit("-")], to="scriptDataEscapedDashDash"), ELSE: arm(to="scriptData", re=True)}
STATES["scriptDataEscaped"] = {
    "-": arm([emit("-")], to="scriptDataEscapedDash"), "<": arm(to="scriptDataEscapedLessThanSign"),
    NUL: arm([emit(FFFD)]), EOF: arm(to="data", re=True), ELSE: arm([emit(CUR)])}
STATES["scriptDataEscapedDash"] = {
    "-": arm([emit("-")], to="scriptDataEscapedDashDash"), "<": arm(to="scriptDataEscapedLessThanSign"),
    NUL: arm([emit(FFFD)], to="scriptDataEscaped"), EOF: arm(to="data", re=True), ELSE: arm([emit(CUR)], to="scriptDataEscaped")}
STATES["scriptDataEscapedDashDash"] = {
    "-": arm([emit("-")]), "<": arm(to="scriptDataEscapedLessThanSign"), ">": arm([emit(">")], to="scriptData"),
    NUL: arm([emit(FFFD)], to="scriptDataEscaped"), EOF: arm(to="data", re=True), ELSE: arm([emit(CUR)], to="scriptDataEscaped")}
STATES["scriptDataEscapedLessThanSign"] = {
    "/": arm([("tmp-set", "")], to="scriptDataEscapedEndTagOpen"),
    ALPHA: arm([("tmp-set", CUR), emit("<" + CUR)], to="scriptDataDoubleEscapeStart"),
    ELSE: arm([emit("<")], to="scriptDataEscaped", re=True)}
STATES["scriptDataEscapedEndTagOpen"] = {
    ALPHA: arm([("tmp-append", CUR)], to="scriptDataEscapedEndTagName"), ELSE: arm([emit("</")], to="scriptDataEscaped", re=True)}
for appropriate in (True, False):
    t = {ALPHA: arm([("tmp-append", CUR)]), ELSE: arm([emit("</" + TMP)], to="scriptDataEscaped", re=True)}
    if appropriate:
        mk = [("new", "EndTag"), app("name", TMP)]
        t[WS] = arm(mk, to="beforeAttributeName")
        t["/"] = arm(mk, to="selfClosingStartTag")
        t[">"] = arm(mk + [EMIT], to="data")
    STATES[("scriptDataEscapedEndTagName", ("appropriate", appropriate))] = t
for is_script in (True, False):
    STATES[("scriptDataDoubleEscapeStart", ("tmp_is_script", is_script))] = {
        (WS, "/", ">"): arm([emit(CUR)], to="scriptDataDoubleEscaped" if is_script else "scriptDataEscaped"),
        ALPHA: arm([("tmp-append", CUR), emit(CUR)]), ELSE: arm(to="scriptDataEscaped", re=True)}
    STATES[("scriptDataDoubleEscapeEnd", ("tmp_is_script", is_script))] = {
        (WS, "/", ">"): arm([emit(CUR)], to="scriptDataEscaped" if is_script else "scriptDataDoubleEscaped"),
        ALPHA: arm([("tmp-append", CUR), emit(CUR)]), ELSE: arm(to="scriptDataDoubleEscaped", re=True)}
STATES["scriptDataDoubleEscaped"] = {
    "-": arm([emit("-")], to="scriptDataDoubleEscapedDash"), "<": arm([emit("<")], to="scriptDataDoubleEscapedLessThanSign"),
    NUL: arm([emit(FFFD)]), EOF: arm(to="data", re=True), ELSE: arm([emit(CUR)])}
STATES["scriptDataDoubleEscapedDash"] = {
    "-": arm([emit("-")], to="scriptDataDoubleEscapedDashDash"), "<": arm([emit("<")], to="scriptDataDoubleEscapedLessThanSign"),
    NUL: arm([emit(FFFD)], to="scriptDataDoubleEscaped"), EOF: arm(to="data", re=True),
    ELSE: arm([emit(CUR)], to="scriptDataDoubleEscaped")}
STATES["scriptDataDoubleEscapedDashDash"] = {
    "-": arm([emit("-")]), "<": arm([emit("<")], to="scriptDataDoubleEscapedLessThanSign"), ">": arm([emit(">")], to="scriptData"),
    NUL: arm([emit(FFFD)], to="scriptDataDoubleEscaped"), EOF: arm(to="data", re=True),
    ELSE: arm([emit(CUR)], to="scriptDataDoubleEscaped")}
STATES["scriptDataDoubleEscapedLessThanSign"] = {
    "/": arm([("tmp-set", ""), emit("/")], to="scriptDataDoubleEscapeEnd"), ELSE: arm(to="scriptDataDoubleEscaped", re=True)}

# ---------------------------------------------------------------- attributes
STATES["beforeAttributeName"] = {
    WS: arm(), "/": arm(to="selfClosingStartTag"), ">": arm([EMIT], to="data"),
    NUL: arm([("newattr", FFFD)], to="attributeName"), EOF: arm(to="data", re=True),
    ELSE: arm([("newattr", CUR)], to="attributeName")}
STATES["attributeName"] = {
    WS: arm(to="afterAttributeName"), "/": arm(to="selfClosingStartTag"), "=": arm(to="beforeAttributeValue"),
    ">": arm([EMIT], to="data"), NUL: arm([app("attrname", FFFD)]), EOF: arm(to="data", re=True),
    ELSE: arm([app("attrname", CUR)])}
STATES["afterAttributeName"] = {
    WS: arm(), "/": arm(to="selfClosingStartTag"), "=": arm(to="beforeAttributeValue"), ">": arm([EMIT], to="data"),
    NUL: arm([("newattr", FFFD)], to="attributeName"), EOF: arm(to="data", re=True),
    ELSE: arm([("newattr", CUR)], to="attributeName")}
STATES["beforeAttributeValue"] = {
    WS: arm(), '"': arm(to="attributeValueDoubleQuoted"), "&": arm(to="attributeValueUnQuoted", re=True),
    "'": arm(to="attributeValueSingleQuoted"), NUL: arm([app("attrvalue", FFFD)], to="attributeValueUnQuoted"),
    ">": arm([EMIT], to="data"), EOF: arm(to="data", re=True),
    ELSE: arm([app("attrvalue", CUR)], to="attributeValueUnQuoted")}
STATES["attributeValueDoubleQuoted"] = {
    '"': arm(to="afterAttributeValue"), "&": arm([("charref", "attribute", '"')]), NUL: arm([app("attrvalue", FFFD)]),
    EOF: arm(to="data", re=True), ELSE: arm([app("attrvalue", CUR)])}
STATES["attributeValueSingleQuoted"] = {
    "'": arm(to="afterAttributeValue"), "&": arm([("charref", "attribute", "'")]), NUL: arm([app("attrvalue", FFFD)]),
    EOF: arm(to="data", re=True), ELSE: arm([app("attrvalue", CUR)])}
STATES["attributeValueUnQuoted"] = {
    WS: arm(to="beforeAttributeName"), "&": arm([("charref", "attribute", ">")]), ">": arm([EMIT], to="data"),
    NUL: arm([app("attrvalue", FFFD)]), EOF: arm(to="data", re=True), ELSE: arm([app("attrvalue", CUR)])}
STATES["afterAttributeValue"] = {
    WS: arm(to="beforeAttributeName"), "/": arm(to="selfClosingStartTag"), ">": arm([EMIT], to="data"),
    EOF: arm(to="data", re=True), ELSE: arm(to="beforeAttributeName", re=True)}
STATES["selfClosingStartTag"] = {
    ">": arm([("set", "selfClosing", True), EMIT], to="data"), EOF: arm(to="data", re=True),
    ELSE: arm(to="beforeAttributeName", re=True)}

# ---------------------------------------------------------------- comments
STATES["commentStart"] = {
    "-": arm(to="commentStartDash"), NUL: arm([app("data", FFFD)], to="comment"), ">": arm([EMIT], to="data"),
    EOF: arm([EMIT], to="data", re=True), ELSE: arm([app("data", CUR)], to="comment")}
STATES["commentStartDash"] = {
    "-": arm(to="commentEnd"), NUL: arm([app("data", "-" + FFFD)], to="comment"), ">": arm([EMIT], to="data"),
    EOF: arm([EMIT], to="data", re=True), ELSE: arm([app("data", "-" + CUR)], to="comment")}
STATES["comment"] = {
    "-": arm(to="commentEndDash"), NUL: arm([app("data", FFFD)]), EOF: arm([EMIT], to="data", re=True),
    ELSE: arm([app("data", CUR)])}
STATES["commentEndDash"] = {
    "-": arm(to="commentEnd"), NUL: arm([app("data", "-" + FFFD)], to="comment"), EOF: arm([EMIT], to="data", re=True),
    ELSE: arm([app("data", "-" + CUR)], to="comment")}
STATES["commentEnd"] = {
    ">": arm([EMIT], to="data"), NUL: arm([app("data", "--" + FFFD)], to="comment"), "!": arm(to="commentEndBang"),
    "-": arm([app("data", "-")]), EOF: arm([EMIT], to="data", re=True), ELSE: arm([app("data", "--" + CUR)], to="comment")}
STATES["commentEndBang"] = {
    "-": arm([app("data", "--!")], to="commentEndDash"), ">": arm([EMIT], to="data"),
    NUL: arm([app("data", "--!" + FFFD)], to="comment"), EOF: arm([EMIT], to="data", re=True),
    ELSE: arm([app("data", "--!" + CUR)], to="comment")}

# ---------------------------------------------------------------- doctype
STATES["doctype"] = {
    WS: arm(to="beforeDoctypeName"), EOF: arm([FQ, EMIT], to="data", re=True), ELSE: arm(to="beforeDoctypeName", re=True)}
STATES["beforeDoctypeName"] = {
    WS: arm(), NUL: arm([("set", "name", FFFD)], to="doctypeName"), ">": arm([FQ, EMIT], to="data"),
    EOF: arm([FQ, EMIT], to="data", re=True), ELSE: arm([("set", "name", CUR)], to="doctypeName")}
STATES["doctypeName"] = {
    WS: arm(to="afterDoctypeName"), ">": arm([EMIT], to="data"), NUL: arm([app("name", FFFD)]),
    EOF: arm([FQ, EMIT], to="data", re=True), ELSE: arm([app("name", CUR)])}
# afterDoctypeName: the PUBLIC / SYSTEM keyword look-ahead is compared separately (C02.4)
STATES["afterDoctypeName"] = {
    WS: arm(), ">": arm([EMIT], to="data"), EOF: arm([FQ, EMIT], to="data", re=True),
    "pPsS": "KEYWORD", ELSE: arm([FQ], to="bogusDoctype")}
for kw, ident in (("Public", "publicId"), ("System", "systemId")):
    dq, sq = "doctype%sIdentifierDoubleQuoted" % kw, "doctype%sIdentifierSingleQuoted" % kw
    STATES["afterDoctype%sKeyword" % kw] = {
        WS: arm(to="beforeDoctype%sIdentifier" % kw), '"': arm([("set", ident, "")], to=dq), "'": arm([("set", ident, "")], to=sq),
        ">": arm([FQ, EMIT], to="data"), EOF: arm([FQ, EMIT], to="data", re=True), ELSE: arm([FQ], to="bogusDoctype")}
    STATES["beforeDoctype%sIdentifier" % kw] = {
        WS: arm(), '"': arm([("set", ident, "")], to=dq), "'": arm([("set", ident, "")], to=sq),
        ">": arm([FQ, EMIT], to="data"), EOF: arm([FQ, EMIT], to="data", re=True), ELSE: arm([FQ], to="bogusDoctype")}
    for st, q in ((dq, '"'), (sq, "'")):
        STATES[st] = {
            q: arm(to="afterDoctype%sIdentifier" % kw), NUL: arm([app(ident, FFFD)]), ">": arm([FQ, EMIT], to="data"),
            EOF: arm([FQ, EMIT], to="data", re=True), ELSE: arm([app(ident, CUR)])}
STATES["afterDoctypePublicIdentifier"] = {
    WS: arm(to="betweenDoctypePublicAndSystemIdentifiers"), ">": arm([EMIT], to="data"),
    '"': arm([("set", "systemId", "")], to="doctypeSystemIdentifierDoubleQuoted"),
    "'": arm([("set", "systemId", "")], to="doctypeSystemIdentifierSingleQuoted"),
    EOF: arm([FQ, EMIT], to="data", re=True), ELSE: arm([FQ], to="bogusDoctype")}
STATES["betweenDoctypePublicAndSystemIdentifiers"] = {
    WS: arm(), ">": arm([EMIT], to="data"),
    '"': arm([("set", "systemId", "")], to="doctypeSystemIdentifierDoubleQuoted"),
    "'": arm([("set", "systemId", "")], to="doctypeSystemIdentifierSingleQuoted"),
    EOF: arm([FQ, EMIT], to="data", re=True), ELSE: arm([FQ], to="bogusDoctype")}
STATES["afterDoctypeSystemIdentifier"] = {
    WS: arm(), ">": arm([EMIT], to="data"), EOF: arm([FQ, EMIT], to="data", re=True),
    ELSE: arm(to="bogusDoctype")}          # NB: does not set the force-quirks flag
STATES["bogusDoctype"] = {">": arm([EMIT], to="data"), EOF: arm([EMIT], to="data", re=True), ELSE: arm()}

# irregular states compared by dedicated rules (C02.4 and the recognisers of the tokenizer model)
SPECIAL = {
    "entityData": ("charref", "data", None, "data"),
    "characterReferenceInRcdata": ("charref", "data", None, "rcdata"),
    "bogusComment": "comment := everything up to the first > or EOF with NUL -> U+FFFD; consume the >; -> data",
    "markupDeclarationOpen": "`--` -> new comment, commentStart; DOCTYPE (ASCII case-insensitive) -> new doctype, doctype; "
                             "`[CDATA[` (case-sensitive) if the adjusted current node is foreign -> cdataSection; "
                             "otherwise nothing is consumed -> bogusComment",
    "cdataSection": "characters up to `]]>` or EOF are emitted (NUL: html5lib replaces, see DESIGN); -> data",
}
KEYWORDS = {"PUBLIC": "afterDoctypePublicKeyword", "SYSTEM": "afterDoctypeSystemKeyword", "DOCTYPE": "doctype"}
