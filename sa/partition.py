"""Engine component E: branch partition over a finite abstract domain.

A region of code that consists only of guards comparing *scrutinees* with
constants, alias assignments and recorded (not interpreted) effects is decided
for every element of a finite representative domain.  Because the scrutinee is
only ever compared with constants, the domain "every constant mentioned (plus
derived boundary values / substrings) plus one fresh value" is a complete
abstraction: two values that compare alike with every constant take the same arm.

This is set algebra on guards by enumeration, not execution of the repository:
only the constant evaluator's whitelisted pure operations are ever applied, and any
statement or expression outside the recognised fragment raises AnalysisError.
"""
from __future__ import annotations

import ast
from typing import Any, Callable, Dict, List, Optional, Tuple

from .consteval import ConstEval, NotConstant
from .repo import AnalysisError, ModuleInfo, norm


class Effect:
    def __init__(self, node, text):
        self.node, self.text = node, text

    def __repr__(self):
        return "Effect(%s)" % self.text


class Outcome:
    """Result of interpreting a statement list on one abstract input."""

    def __init__(self):
        self.returned = False
        self.value: Any = None
        self.value_node = None
        self.effects: List[Effect] = []
        self.env: Dict[str, Any] = {}
        self.path: List[str] = []      # guards taken, for diagnostics
        self.raised = None
        self.flow = None               # 'break' / 'continue' when hit at top level


class Opaque:
    """Value of an expression the fragment does not interpret (recorded by text)."""

    def __init__(self, text):
        self.text = text

    def __repr__(self):
        return "Opaque(%s)" % self.text

    def __eq__(self, other):
        return isinstance(other, Opaque) and other.text == self.text

    def __hash__(self):
        return hash(self.text)


class MiniInterp:
    """Interprets If / Assign / Return / Expr / Pass / Raise / Try(body) over concrete
    representatives.  `opaque_ok`: expressions that are not constant-evaluable are
    bound to Opaque values when assigned or returned; a *guard* that is not evaluable
    is an AnalysisError unless `guard_hook` decides it."""

    def __init__(self, ce: ConstEval, mod: ModuleInfo, guard_hook: Optional[Callable] = None,
                 expr_hook: Optional[Callable] = None, stmt_hook: Optional[Callable] = None):
        self.ce, self.mod = ce, mod
        self.guard_hook = guard_hook
        self.expr_hook = expr_hook
        self.stmt_hook = stmt_hook

    _depth = 0

    def _helper_hook(self, node, local):
        """after the rule's own hook: a call of a small *pure* function defined at the top level of the module (a helper the code
        under analysis was split into) is interpreted on its evaluated arguments -- one level, no effects, value not opaque"""
        if self.expr_hook is not None:
            hv = self.expr_hook(node, local)
            if hv is not NotImplemented:
                return hv
        outer = getattr(self, "_outer_hook", None)
        if outer is not None and outer != self._helper_hook:
            hv = outer(node, local)
            if hv is not NotImplemented:
                return hv
        h = None
        is_method = False
        if isinstance(node, ast.Call) and not node.keywords and MiniInterp._depth < 2:
            if isinstance(node.func, ast.Name) and node.func.id in getattr(self.mod, "functions", {}) and (local is None or node.func.id not in local):
                h = self.mod.functions[node.func.id]
            elif isinstance(node.func, ast.Attribute) and isinstance(node.func.value, ast.Name) and node.func.value.id == "self":
                # a method of the class under analysis: unique by name among the module's classes
                cands = [c.methods[node.func.attr] for c in getattr(self.mod, "all_classes", []) if node.func.attr in c.methods]
                if len(cands) == 1:
                    h, is_method = cands[0], True
        if h is not None:
            a = h.node.args
            hp = h.params()[1:] if is_method else h.params()
            if a.vararg is None and a.kwarg is None and not a.kwonlyargs and len(hp) >= len(node.args) and \
                    len(hp) - len(a.defaults) <= len(node.args) and len(list(ast.walk(h.node))) < 400:
                try:
                    args = []
                    for x in node.args:
                        try:
                            args.append(self.ce.eval(x, self.mod, local))
                        except NotConstant:
                            args.append(Opaque(norm(x)))
                    env = dict(zip(hp, args))
                    if is_method:
                        env[h.params()[0]] = (local or {}).get("self", Opaque("self"))
                    for p_, d_ in zip(hp[len(hp) - len(a.defaults):], a.defaults):
                        if p_ not in env:
                            env[p_] = self.ce.eval(d_, self.mod, None)
                    MiniInterp._depth += 1
                    try:
                        # the rule's symbolic predicates (environment entries named P_* / __*) stay visible in the helper
                        # ... and so do module-level names the rule has overridden with a table of its own
                        glob = getattr(self.mod, "tree", None)
                        gnames = {t.id for st in (glob.body if glob is not None else []) if isinstance(st, ast.Assign)
                                  for t in st.targets if isinstance(t, ast.Name)}
                        for k_, v_ in (local or {}).items():
                            if (k_.startswith(("P_", "__")) or k_ in gnames) and k_ not in env:
                                env[k_] = v_
                        sub = MiniInterp(self.ce, self.mod, guard_hook=self.guard_hook, expr_hook=self.expr_hook,
                                         stmt_hook=None).run(h.node.body, env)
                    finally:
                        MiniInterp._depth -= 1
                    if (sub.returned or not sub.raised) and not sub.effects and not sub.raised and not isinstance(sub.value, Opaque):
                        return sub.value if sub.returned else None
                except (NotConstant, AnalysisError):
                    pass
        return NotImplemented

    def eval_expr(self, node, env):
        saved = self.ce.hook
        # a hook the rule installed on the evaluator itself stays in force (consulted after the interpreter's own)
        if saved is not None and getattr(saved, "__func__", None) is not MiniInterp._helper_hook:
            self._outer_hook = saved
        self.ce.hook = self._helper_hook
        try:
            return self.ce.eval(node, self.mod, env)
        finally:
            self.ce.hook = saved

    def eval_guard(self, node, env) -> bool:
        if self.guard_hook is not None:
            hv = self.guard_hook(node, env, self)
            if hv is not NotImplemented:
                return bool(hv)
        # and / or / not are split here so that hooks see the leaves
        if isinstance(node, ast.BoolOp):
            if isinstance(node.op, ast.And):
                return all(self.eval_guard(v, env) for v in node.values)
            return any(self.eval_guard(v, env) for v in node.values)
        if isinstance(node, ast.UnaryOp) and isinstance(node.op, ast.Not):
            return not self.eval_guard(node.operand, env)
        try:
            v = self.eval_expr(node, env)
        except NotConstant as e:
            raise AnalysisError("guard `%s` is not decidable over the abstract domain (%s)" % (norm(node)[:120], e))
        if isinstance(v, Opaque):
            raise AnalysisError("guard `%s` depends on an uninterpreted value" % norm(node)[:120])
        return bool(v)

    def run(self, stmts, env: Dict[str, Any]) -> Outcome:
        out = Outcome()
        out.env = dict(env)
        self._block(stmts, out)
        return out

    def _block(self, stmts, out: Outcome) -> bool:
        """returns True if control left the block (return/raise/break/continue)"""
        for st in stmts:
            if self._stmt(st, out):
                return True
        return False

    def _stmt(self, st, out: Outcome) -> bool:
        env = out.env
        if self.stmt_hook is not None:
            hv = self.stmt_hook(st, out, self)
            if hv is not NotImplemented:
                return bool(hv)
        if isinstance(st, ast.Pass):
            return False
        if isinstance(st, ast.Expr):
            if isinstance(st.value, ast.Constant):
                return False
            out.effects.append(Effect(st, norm(st)))
            return False
        if isinstance(st, ast.Assign):
            try:
                val = self.eval_expr(st.value, env)
            except NotConstant:
                val = Opaque(norm(st.value))
            # containers the fragment creates itself (`d = {}`, `xs = []`) may be filled by it: remembered by identity
            if isinstance(st.value, (ast.Dict, ast.List, ast.Set)) or (
                    isinstance(st.value, ast.Call) and norm(st.value.func) in ("dict", "list", "set", "OrderedDict", "collections.OrderedDict")
                    and not st.value.args and not st.value.keywords):
                if not isinstance(val, Opaque):
                    self._fresh = getattr(self, "_fresh", set())
                    self._fresh.add(id(val))
                    self._fresh_keep = getattr(self, "_fresh_keep", [])
                    self._fresh_keep.append(val)
            for t in st.targets:
                if isinstance(t, ast.Name):
                    env[t.id] = val
                elif isinstance(t, ast.Subscript) and isinstance(t.value, ast.Name) and t.value.id in env and \
                        id(env[t.value.id]) in getattr(self, "_fresh", ()) and not isinstance(val, Opaque) and not isinstance(t.slice, ast.Slice):
                    try:
                        keyv = self.eval_expr(t.slice, env)
                    except NotConstant:
                        out.effects.append(Effect(st, norm(st)))
                        continue
                    env[t.value.id][keyv] = val
                elif isinstance(t, ast.Tuple) and all(isinstance(e, ast.Name) for e in t.elts) \
                        and not isinstance(val, Opaque):
                    vals = list(val)
                    if len(vals) != len(t.elts):
                        raise AnalysisError("cannot unpack in `%s`" % norm(st)[:100])
                    for e, v in zip(t.elts, vals):
                        env[e.id] = v
                else:
                    out.effects.append(Effect(st, norm(st)))
            return False
        if isinstance(st, ast.AugAssign):
            if isinstance(st.target, ast.Name) and st.target.id in env and not isinstance(env[st.target.id], Opaque):
                try:
                    rhs = self.eval_expr(st.value, env)
                    tmp = ast.BinOp(left=ast.Constant(env[st.target.id]), op=st.op, right=ast.Constant(rhs))
                    env[st.target.id] = self.ce.eval(tmp, self.mod, env)
                    return False
                except NotConstant:
                    pass
            if isinstance(st.target, ast.Name):
                env[st.target.id] = Opaque(norm(st))
            out.effects.append(Effect(st, norm(st)))
            return False
        if isinstance(st, ast.If):
            taken = self.eval_guard(st.test, env)
            out.path.append(("+" if taken else "-") + norm(st.test)[:80])
            return self._block(st.body if taken else st.orelse, out)
        if isinstance(st, ast.Return):
            out.returned = True
            out.value_node = st.value
            if st.value is None:
                out.value = None
            else:
                try:
                    out.value = self.eval_expr(st.value, env)
                except NotConstant:
                    out.value = Opaque(norm(st.value))
            return True
        if isinstance(st, ast.Raise):
            out.raised = norm(st)
            return True
        if isinstance(st, ast.Try):
            # body only: handlers exist for platform differences the fragment does not model
            return self._block(st.body, out)
        if isinstance(st, ast.Assert):
            return False
        if isinstance(st, (ast.Break, ast.Continue)):
            out.flow = "break" if isinstance(st, ast.Break) else "continue"
            return True
        if isinstance(st, ast.For):
            # a loop over a *concrete* finite sequence (the representatives' own data: an attribute mapping, a constant table)
            it = st.iter
            try:
                if isinstance(it, ast.Call) and isinstance(it.func, ast.Attribute) and it.func.attr in ("items", "keys", "values") and not it.args:
                    base = self.eval_expr(it.func.value, env)
                    if not isinstance(base, dict):
                        raise NotConstant("items() of a non-mapping")
                    seq = list(getattr(base, it.func.attr)())
                else:
                    seq = self.eval_expr(it, env)
                    if isinstance(seq, Opaque) or not isinstance(seq, (list, tuple, dict, set, frozenset, str)):
                        raise NotConstant("not a concrete sequence")
                    seq = list(seq)
            except NotConstant as e:
                raise AnalysisError("loop over `%s` is not over a concrete sequence (%s)" % (norm(it)[:80], e))
            if len(seq) > 200:
                raise AnalysisError("loop over `%s` is too long to unroll" % norm(it)[:80])

            def bind(t, v):
                if isinstance(t, ast.Name):
                    env[t.id] = v
                elif isinstance(t, (ast.Tuple, ast.List)):
                    vs = list(v)
                    if len(vs) != len(t.elts):
                        raise AnalysisError("cannot unpack in `for %s`" % norm(t)[:60])
                    for tt, vv in zip(t.elts, vs):
                        bind(tt, vv)
                else:
                    raise AnalysisError("loop target `%s` outside the partition fragment" % norm(t)[:60])
            broke = False
            for item in seq:
                bind(st.target, item)
                left = self._block(st.body, out)
                if out.returned or out.raised:
                    return True
                if left and out.flow == "break":
                    out.flow = None
                    broke = True
                    break
                out.flow = None
            if not broke and st.orelse:
                return self._block(st.orelse, out)
            return False
        if isinstance(st, ast.Delete):
            out.effects.append(Effect(st, norm(st)))
            return False
        raise AnalysisError("statement outside the partition fragment: `%s` (line %d)" % (
            norm(st)[:100], getattr(st, "lineno", 0)))


# ------------------------------------------------------------------ domains
def string_constants_in_guards(nodes) -> Tuple[set, set]:
    """(constants compared for equality/membership, str constants used as the
    *container* of an `in` test -- whose substrings matter)."""
    consts, containers = set(), set()
    for root in nodes:
        for n in ast.walk(root):
            if isinstance(n, ast.Compare):
                for op, c in zip(n.ops, [n.comparators[0]] if n.comparators else []):
                    pass
                operands = [n.left] + list(n.comparators)
                for i, op in enumerate(n.ops):
                    l, r = operands[i], operands[i + 1]
                    if isinstance(op, (ast.In, ast.NotIn)) and isinstance(r, ast.Constant) and isinstance(r.value, str):
                        containers.add(r.value)
                    for side in (l, r):
                        for c in ast.walk(side):
                            if isinstance(c, ast.Constant) and isinstance(c.value, str):
                                consts.add(c.value)
    return consts, containers


def substrings(s: str) -> set:
    return {s[i:j] for i in range(len(s) + 1) for j in range(i, len(s) + 1)}


FRESH = "⁠other⁠"   # a name that equals no constant and is a substring of none


def name_domain(nodes, extra=()) -> List[str]:
    consts, containers = string_constants_in_guards(nodes)
    dom = set(consts) | set(extra)
    for c in containers:
        dom |= substrings(c)
    dom.add(FRESH)
    return sorted(dom)


def domains_by_scrutinee(nodes, const_of=None) -> Dict[str, set]:
    """String constants grouped by the (normalised) non-constant side they are compared
    with; substrings are added for `x in "<str>"` containers; every domain gets FRESH.
    `const_of(node)` (optional) returns the value of a constant-evaluable operand (a named
    module-level table, say) or None: such an operand is a constant side, never a scrutinee."""
    doms: Dict[str, set] = {}

    def strings_of(v):
        if isinstance(v, str):
            return {v}
        if isinstance(v, (tuple, list, set, frozenset)):
            return {x for x in v if isinstance(x, str)}
        if isinstance(v, dict):
            return {x for x in v if isinstance(x, str)}
        return set()
    for root in nodes:
        for n in ast.walk(root):
            if not isinstance(n, ast.Compare):
                continue
            operands = [n.left] + list(n.comparators)
            for i, op in enumerate(n.ops):
                l, r = operands[i], operands[i + 1]
                def table_lookup(x):
                    """`TABLE[<scrutinee>]` with TABLE a constant mapping: -> (the mapping, the key expression)"""
                    if const_of is not None and isinstance(x, ast.Subscript) and not isinstance(x.slice, ast.Constant):
                        tv = const_of(x.value)
                        if isinstance(tv, dict):
                            return tv, x.slice
                    return None
                for scrut, other in ((l, r), (r, l)):
                    if not isinstance(scrut, (ast.Name, ast.Subscript, ast.Attribute)):
                        continue
                    if const_of is not None and not isinstance(scrut, ast.Constant) and const_of(scrut) is not None:
                        continue
                    if table_lookup(scrut) is not None:
                        continue            # a constant side; its key expression is the scrutinee (below)
                    ov = const_of(other) if const_of is not None and not isinstance(other, ast.Constant) else None
                    tl = table_lookup(other)
                    if tl is not None:
                        # every value of the mapping may be the thing compared with; the key ranges over the mapping's keys
                        ov = set()
                        for v_ in tl[0].values():
                            ov |= strings_of(v_)
                        ov = tuple(sorted(ov))
                        doms.setdefault(norm(tl[1]), set()).update(strings_of(tl[0]))
                    if ov is not None:
                        consts = strings_of(ov)
                    else:
                        consts = {c.value for c in ast.walk(other)
                                  if isinstance(c, ast.Constant) and isinstance(c.value, str)}
                    if not consts:
                        continue
                    d = doms.setdefault(norm(scrut), set())
                    d |= consts
                    if isinstance(op, (ast.In, ast.NotIn)) and scrut is l and isinstance(other, ast.Constant) \
                            and isinstance(other.value, str):
                        d |= substrings(other.value)
                    elif isinstance(op, (ast.In, ast.NotIn)) and scrut is l and isinstance(ov, str):
                        d |= substrings(ov)
    for d in doms.values():
        d.add(FRESH)
    return doms


def int_boundaries(nodes, extra=()) -> List[int]:
    vals = set(extra)
    for root in nodes:
        for n in ast.walk(root):
            if isinstance(n, ast.Constant) and isinstance(n.value, int) and not isinstance(n.value, bool):
                vals.add(n.value)
    out = set()
    for v in vals:
        out |= {v - 1, v, v + 1}
    return sorted(x for x in out if x >= 0)


# character atoms: 128 ASCII code points individually, one non-ASCII representative, EOF
NONASCII = "é"
EOF = None
ATOMS: List[Any] = [chr(i) for i in range(128)] + [NONASCII, EOF]


def atom_name(a) -> str:
    if a is None:
        return "EOF"
    if a == NONASCII:
        return "NONASCII"
    o = ord(a)
    if o < 33 or o == 127:
        return "U+%04X" % o
    return a
