#!/usr/bin/env python3
"""Confirm a behaviour-preserving refactoring produced by a sub-agent and keep it under seeded/_refactorings/<name>/.

usage: tools/keep_refactoring.py <source-dir with patch.diff, equiv.py[, notes.md]> <name>

In a scratch worktree of /repo's HEAD (removed afterwards): equiv.py prints the same output on the unchanged tree and with the
patch applied, and the existing suite still passes with the patch.  Nothing is kept when the confirmation fails.
"""
import json
import os
import re
import shutil
import subprocess
import sys
import tempfile

VERIF = os.path.dirname(os.path.dirname(os.path.abspath(__file__)))
PY = "/venv/bin/python"


def run(cmd, cwd, env=None, timeout=900):
    try:
        p = subprocess.run(cmd, cwd=cwd, env=env, capture_output=True, text=True, timeout=timeout)
        return p.returncode, p.stdout + p.stderr
    except subprocess.TimeoutExpired:
        return 124, "timeout"


def main():
    src, name = os.path.abspath(sys.argv[1]), sys.argv[2]
    wt = tempfile.mkdtemp(prefix="refkeep_")
    os.rmdir(wt)
    subprocess.check_call(["git", "-C", "/repo", "worktree", "add", "-q", "--detach", wt, "HEAD"])
    try:
        env = dict(os.environ, PYTHONPATH=wt, PYTHONWARNINGS="ignore", PYTHONHASHSEED="0")
        rc0, out0 = run([PY, os.path.join(src, "equiv.py")], wt, env, 600)
        rc, out = run(["git", "apply", os.path.join(src, "patch.diff")], wt)
        if rc != 0:
            print(json.dumps({"name": name, "ok": False, "why": "patch does not apply: " + out[:200]}))
            return 1
        rc1, out1 = run([PY, os.path.join(src, "equiv.py")], wt, env, 600)
        rc2, out2 = run([PY, "-m", "pytest", "-q", "-p", "no:cacheprovider", "-x"], wt, None, 900)
        m = re.search(r"(\d+) passed", out2)
        ok = rc0 == 0 and rc1 == 0 and out0 == out1 and out0.strip() != "" and rc2 == 0 and m and int(m.group(1)) >= 972
        print(json.dumps({"name": name, "ok": bool(ok), "equiv_exit": [rc0, rc1], "same_output": out0 == out1, "suite": rc2}))
        if not ok:
            return 1
        dst = os.path.join(VERIF, "seeded", "_refactorings", name)
        os.makedirs(dst, exist_ok=True)
        for f in ("patch.diff", "equiv.py", "notes.md"):
            if os.path.exists(os.path.join(src, f)):
                shutil.copy(os.path.join(src, f), os.path.join(dst, f))
        return 0
    finally:
        subprocess.call(["git", "-C", "/repo", "worktree", "remove", "--force", wt])


if __name__ == "__main__":
    sys.exit(main())
