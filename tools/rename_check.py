#!/usr/bin/env python3
"""Robustness: every function-local variable (assigned in the function, not a parameter, not global/nonlocal, not used by a
nested function or class body) of every non-test module is renamed (in memory) to <name>_r; behaviour is identical.  All 20
quick checks run on that overlay: exit 1 (VIOLATION) would be a false alarm caused by a dependence on variable names; exit 2
(undecided) is tolerated and listed.  Run with /venv/bin/python."""
import sys, os, ast, glob, symtable
sys.path.insert(0, os.path.dirname(os.path.dirname(os.path.abspath(__file__))))
os.environ["VERIF_EVIDENCE_DIR"] = "/tmp/rename_ev"
os.environ["VERIF_NO_SELFTEST"] = "1"
from sa.check import run_property
from sa.repo import AnalysisError


class Renamer(ast.NodeTransformer):
    def __init__(self):
        self.stack = []

    def _locals(self, fn):
        params = {a.arg for a in fn.args.args + fn.args.kwonlyargs + getattr(fn.args, "posonlyargs", [])}
        if fn.args.vararg:
            params.add(fn.args.vararg.arg)
        if fn.args.kwarg:
            params.add(fn.args.kwarg.arg)
        assigned, banned = set(), set()
        nested_names = set()
        for n in ast.walk(fn):
            if n is fn:
                continue
            if isinstance(n, (ast.FunctionDef, ast.Lambda, ast.ClassDef, ast.AsyncFunctionDef, ast.GeneratorExp, ast.ListComp, ast.SetComp, ast.DictComp)):
                for m in ast.walk(n):
                    if isinstance(m, ast.Name):
                        nested_names.add(m.id)
            if isinstance(n, (ast.Global, ast.Nonlocal)):
                banned |= set(n.names)
            if isinstance(n, (ast.FunctionDef, ast.ClassDef, ast.AsyncFunctionDef)):
                banned.add(n.name)
            if isinstance(n, (ast.Import, ast.ImportFrom)):
                for a in n.names:
                    banned.add((a.asname or a.name).split(".")[0])
            if isinstance(n, ast.ExceptHandler) and n.name:
                banned.add(n.name)
        # direct (non-nested) stores
        def direct(node):
            for c in ast.iter_child_nodes(node):
                if isinstance(c, (ast.FunctionDef, ast.Lambda, ast.ClassDef, ast.AsyncFunctionDef)):
                    continue
                yield c
                yield from direct(c)
        for n in direct(fn):
            if isinstance(n, ast.Name) and isinstance(n.ctx, (ast.Store, ast.Del)):
                assigned.add(n.id)
        return {x for x in assigned - params - banned - nested_names if not x.startswith("__")}

    def visit_FunctionDef(self, node):
        loc = self._locals(node)
        self.stack.append(loc)
        node.body = [self.visit(s) for s in node.body]
        self.stack.pop()
        return node

    def visit_ClassDef(self, node):
        self.stack.append(set())
        self.generic_visit(node)
        self.stack.pop()
        return node

    def visit_Lambda(self, node):
        return node

    def visit_Name(self, node):
        if self.stack and node.id in self.stack[-1]:
            node.id = node.id + "_r"
        return node


def main():
    ov = {}
    root = os.path.join(os.environ.get("VERIF_REPO", "/repo"), "html5lib")
    for p in glob.glob(root + "/**/*.py", recursive=True):
        rel = os.path.relpath(p, root)
        if rel.startswith("tests"):
            continue
        tree = ast.parse(open(p).read())
        tree = Renamer().visit(tree)
        ast.fix_missing_locations(tree)
        ov[rel] = ast.unparse(tree) + "\n"
    if len(sys.argv) > 1 and sys.argv[1] == "--dump":
        for rel, src in ov.items():
            path = os.path.join(sys.argv[2], "html5lib", rel)
            open(path, "w").write(src)
        return 0
    bad = False
    for i in range(1, 21):
        pid = "C%02d" % i
        try:
            rc = run_property(pid, "quick", overlay=ov, quiet=True)
        except AnalysisError as e:
            rc = "2 (%s)" % str(e)[:160]
        except Exception as e:      # noqa: BLE001
            rc = "2 (internal: %r)" % e
        print(pid, rc)
        bad = bad or rc == 1
    return 1 if bad else 0


if __name__ == "__main__":
    sys.exit(main())
