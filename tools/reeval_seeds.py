#!/usr/bin/env python3
"""Re-run every check against every kept seeded change and refresh meta.json / seeded/SUMMARY.md.
The first recorded result is kept as `caught_by_at_first_run` so that the effect of later strengthening stays visible."""
import json, os, subprocess, sys, tempfile, shutil
from concurrent.futures import ThreadPoolExecutor
VERIF = os.path.dirname(os.path.dirname(os.path.abspath(__file__)))
PY = "/venv/bin/python"


def one(d):
    meta_p = os.path.join(d, "meta.json")
    meta = json.load(open(meta_p))
    wt = tempfile.mkdtemp(prefix="seedre_"); os.rmdir(wt)
    ev = tempfile.mkdtemp(prefix="seedev_")
    subprocess.check_call(["git", "-C", "/repo", "worktree", "add", "-q", "--detach", wt, "HEAD"])
    try:
        rc = subprocess.call(["git", "-C", wt, "apply", os.path.join(d, "patch.diff")], stderr=subprocess.DEVNULL)
        if rc != 0:
            rc = subprocess.call(["git", "-C", wt, "apply", "--3way", os.path.join(d, "patch.diff")], stderr=subprocess.DEVNULL)
        if rc != 0:
            meta["applies_at_head"] = False
            # a stale verdict must not be counted: the patch has to be re-based (tools/rebase_seed.py) first
            meta["caught_by"], meta["fail_closed_in"], meta["reports"] = [], [], {"note": "patch does not apply to the current tree"}
            meta["caught_by_own_property_check"] = False
            json.dump(meta, open(meta_p, "w"), indent=1)
            return meta
        meta["applies_at_head"] = True
        env = dict(os.environ, VERIF_REPO=wt, VERIF_EVIDENCE_DIR=ev, VERIF_NO_SELFTEST="1")
        caught, closed, details = [], [], {}
        for i in range(1, 21):
            p = "C%02d" % i
            pr = subprocess.run([PY, "-m", "sa.check", p, "--tier", "quick"], cwd=VERIF, env=env, capture_output=True, text=True)
            lines = pr.stdout.splitlines()
            if pr.returncode == 1:
                caught.append(p)
                details[p] = [lines[j + 1].strip()[:300] for j, l in enumerate(lines) if l.startswith("VIOLATION") and j + 1 < len(lines)][:3]
            elif pr.returncode == 2:
                closed.append(p)
                details[p] = [l[:300] for l in lines if l.startswith("ANALYSIS-ERROR")][:1]
    finally:
        subprocess.call(["git", "-C", "/repo", "worktree", "remove", "--force", wt])
        shutil.rmtree(ev, ignore_errors=True)
    if "note" in meta and "caught_by_at_first_run" not in meta:
        # kept while the checks were being edited: this re-evaluation is the first clean run
        meta["caught_by_at_first_run"], meta["fail_closed_at_first_run"] = list(caught), list(closed)
    meta.setdefault("caught_by_at_first_run", meta.get("caught_by", []))
    meta.setdefault("fail_closed_at_first_run", meta.get("fail_closed_in", []))
    meta["caught_by"], meta["fail_closed_in"], meta["reports"] = caught, closed, details
    meta["caught_by_own_property_check"] = meta["property"] in caught
    json.dump(meta, open(meta_p, "w"), indent=1)
    return meta


def main():
    dirs = sorted(os.path.join(VERIF, "seeded", p, n) for p in os.listdir(os.path.join(VERIF, "seeded"))
                  if os.path.isdir(os.path.join(VERIF, "seeded", p)) and not p.startswith("_") for n in os.listdir(os.path.join(VERIF, "seeded", p)))
    with ThreadPoolExecutor(max_workers=8) as ex:
        metas = list(ex.map(one, dirs))
    lines = ["# Seeded changes", "",
             "Each row: a change produced by an independent sub-agent that was given only the property text and a scratch worktree;",
             "confirmed here (demo passes without / fails with the change; the 972 existing tests still pass with it).", "",
             "| property | change | needs to manifest | reported by (VIOLATION) | fail-closed (exit 2) | at first run |", "|---|---|---|---|---|---|"]
    for m in metas:
        first = ",".join(m.get("caught_by_at_first_run", [])) or ("exit 2: " + ",".join(m.get("fail_closed_at_first_run", [])) if m.get("fail_closed_at_first_run") else "missed")
        lines.append("| %s | %s | %s | %s | %s | %s |" % (m["property"], m["name"], m.get("needs_to_manifest", "")[:110],
                                                       ",".join(m["caught_by"]) or "**none**", ",".join(m["fail_closed_in"]) or "-", first))
    n = len(metas)
    c = sum(1 for m in metas if m["caught_by"])
    own = sum(1 for m in metas if m["caught_by_own_property_check"])
    lines += ["", "%d changes; %d reported by at least one check (%d by the check of the property they were written against); %d only fail-closed; %d missed."
              % (n, c, own, sum(1 for m in metas if not m["caught_by"] and m["fail_closed_in"]), sum(1 for m in metas if not m["caught_by"] and not m["fail_closed_in"]))]
    open(os.path.join(VERIF, "seeded", "SUMMARY.md"), "w").write("\n".join(lines) + "\n")
    print(lines[-1])


if __name__ == "__main__":
    main()
