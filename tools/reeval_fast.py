#!/usr/bin/env python3
"""Fast confirmation after a rule change: for every kept seeded change run only the checks that reported it last time
(`caught_by` in its meta.json); a change none of them reports any more is re-run against all 20 checks.  Updates meta.json
(`caught_by`, `fail_closed_in`) only for changes whose status changed, and prints them.  The full table is rebuilt by
tools/reeval_seeds.py (about two hours); this takes a few minutes."""
import json, os, subprocess, sys, tempfile, shutil, glob
from concurrent.futures import ThreadPoolExecutor
VERIF = os.path.dirname(os.path.dirname(os.path.abspath(__file__)))
PY = "/venv/bin/python"
ALL = ["C%02d" % i for i in range(1, 21)]


def run_checks(wt, ev, props):
    env = dict(os.environ, VERIF_REPO=wt, VERIF_EVIDENCE_DIR=ev, VERIF_NO_SELFTEST="1")
    caught, closed = [], []
    for p in props:
        rc = subprocess.run([PY, "-m", "sa.check", p, "--tier", "quick"], cwd=VERIF, env=env, capture_output=True, text=True).returncode
        if rc == 1:
            caught.append(p)
        elif rc == 2:
            closed.append(p)
    return caught, closed


def one(d):
    meta_p = os.path.join(d, "meta.json")
    meta = json.load(open(meta_p))
    wt = tempfile.mkdtemp(prefix="seedfast_"); os.rmdir(wt)
    ev = tempfile.mkdtemp(prefix="seedev_")
    subprocess.check_call(["git", "-C", "/repo", "worktree", "add", "-q", "--detach", wt, "HEAD"])
    try:
        patch = os.path.join(d, "patch.diff")
        if subprocess.call(["git", "-C", wt, "apply", patch], stderr=subprocess.DEVNULL) != 0 and \
                subprocess.call(["git", "-C", wt, "apply", "--3way", patch], stderr=subprocess.DEVNULL) != 0:
            return d, "patch does not apply", meta.get("caught_by"), []
        before = list(meta.get("caught_by", []))
        caught, closed = run_checks(wt, ev, before or ALL)
        if before and not caught:
            caught, closed = run_checks(wt, ev, ALL)
        status = "same" if bool(caught) == bool(before) else ("now reported" if caught else ("now only fail-closed" if closed else "now MISSED"))
        if status != "same" or not before:
            meta["caught_by"], meta["fail_closed_in"] = caught, closed
            meta["caught_by_own_property_check"] = meta["property"] in caught
            json.dump(meta, open(meta_p, "w"), indent=1)
        return d, status, caught, closed
    finally:
        subprocess.call(["git", "-C", "/repo", "worktree", "remove", "--force", wt])
        shutil.rmtree(ev, ignore_errors=True)


def main():
    dirs = sorted(glob.glob(os.path.join(VERIF, "seeded", "C*", "*")))
    n = {"same": 0}
    with ThreadPoolExecutor(max_workers=8) as ex:
        for d, status, caught, closed in ex.map(one, dirs):
            n[status] = n.get(status, 0) + 1
            if status != "same":
                print(os.path.relpath(d, VERIF), status, caught, closed)
    print(n)


if __name__ == "__main__":
    main()
