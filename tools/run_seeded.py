#!/usr/bin/env python3
"""Run the checks against a seeded change without touching /repo.

usage: tools/run_seeded.py <seed-dir> [property ...]      (seed-dir contains patch.diff; default: all properties)

The patch is applied to a scratch git worktree of /repo's HEAD under /tmp (removed afterwards); the checks run with
VERIF_REPO pointing at it and VERIF_EVIDENCE_DIR at a scratch directory, so neither /repo nor the committed evidence
is modified.  Prints, per property, the exit code and the new VIOLATION instances.
"""
import json
import os
import shutil
import subprocess
import sys
import tempfile

VERIF = os.path.dirname(os.path.dirname(os.path.abspath(__file__)))


def main():
    seed = os.path.abspath(sys.argv[1])
    props = sys.argv[2:] or ["C%02d" % i for i in range(1, 21)]
    patch = os.path.join(seed, "patch.diff")
    wt = tempfile.mkdtemp(prefix="seedeval_")
    os.rmdir(wt)
    ev = tempfile.mkdtemp(prefix="seedev_")
    subprocess.check_call(["git", "-C", "/repo", "worktree", "add", "-q", "--detach", wt, "HEAD"])
    results = {}
    try:
        if subprocess.call(["git", "-C", wt, "apply", patch], stderr=subprocess.DEVNULL) != 0:
            subprocess.check_call(["git", "-C", wt, "apply", "--3way", patch])
        env = dict(os.environ, VERIF_REPO=wt, VERIF_EVIDENCE_DIR=ev, VERIF_NO_SELFTEST="1")
        for p in props:
            pr = subprocess.run(["/venv/bin/python", "-m", "sa.check", p, "--tier", "quick"], cwd=VERIF, env=env,
                                capture_output=True, text=True)
            lines = pr.stdout.splitlines()
            viol = [lines[i + 1].strip() for i, l in enumerate(lines) if l.startswith("VIOLATION") and i + 1 < len(lines)]
            err = [l for l in lines if l.startswith("ANALYSIS-ERROR")]
            results[p] = {"exit": pr.returncode, "violations": viol[:6], "n_violations": len(viol), "analysis_error": err[:1]}
            tag = {0: "silent", 1: "VIOLATION", 2: "ANALYSIS-ERROR"}.get(pr.returncode, str(pr.returncode))
            if pr.returncode != 0:
                print("%s %s %s" % (p, tag, (viol or err or [""])[0][:260]))
    finally:
        subprocess.call(["git", "-C", "/repo", "worktree", "remove", "--force", wt])
        shutil.rmtree(ev, ignore_errors=True)
    caught = [p for p, v in results.items() if v["exit"] == 1]
    closed = [p for p, v in results.items() if v["exit"] == 2]
    print("SUMMARY caught_by=%s fail_closed=%s" % (caught, closed))
    json.dump(results, open(os.path.join(seed, "check_results.json"), "w"), indent=1)


if __name__ == "__main__":
    main()
