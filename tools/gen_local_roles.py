#!/usr/bin/env python3
"""Regenerate sa/data/local_roles.json (the role of every function local of today's /repo tree; see sa/localroles.py).
Run after a deliberate change of /repo (a `fix:` commit) so that the canonical names follow the code."""
import ast, glob, json, os, sys
sys.path.insert(0, os.path.dirname(os.path.dirname(os.path.abspath(__file__))))
from sa.localroles import build_table, canonical_comparisons, DATA

root = os.path.join(os.environ.get("VERIF_REPO", "/repo"), "html5lib")
trees = {}
for p in sorted(glob.glob(root + "/**/*.py", recursive=True)):
    rel = os.path.relpath(p, root)
    if rel.startswith("tests"):
        continue
    trees[rel] = ast.parse(open(p).read())
    # the same in-place normalisations the loader applies before it canonicalises the locals (sa/repo.py ModuleInfo)
    from sa.repo import inline_stable_aliases, lower_conditional_statements
    inline_stable_aliases(trees[rel])
    lower_conditional_statements(trees[rel])
    canonical_comparisons(trees[rel])
table = build_table(trees)
json.dump(table, open(DATA, "w"), indent=0, sort_keys=True)
print("%d functions, %d locals" % (len(table), sum(len(v) for v in table.values())))
