#!/bin/sh
# All behaviour-preserving probes: any "Cnn 1" line is a false alarm; "Cnn 2" means no verdict on the transformed tree.
cd "$(dirname "$0")/.."
for t in reformat_check rename_check inchain_check yoda_check parallel_check; do
  echo "== $t"; /venv/bin/python tools/$t.py 2>&1 | grep "^C[0-9][0-9] [12]" | cut -c1-200
done
echo "== refactorings"; python3 tools/run_refactorings.py | tail -1
rm -rf /tmp/parallel_ev /tmp/reformat_ev /tmp/rename_ev /tmp/inchain_ev /tmp/yoda_ev
