#!/usr/bin/env python3
"""Behaviour-preserving refactorings (seeded/_refactorings/*/patch.diff, produced by independent sub-agents together
with differential scripts showing identical behaviour) must never make a check print VIOLATION.  exit 2 (undecided /
unrecognised shape) is tolerated and counted.  Writes seeded/_refactorings/SUMMARY.md."""
import os, subprocess, sys, tempfile, shutil, json
from concurrent.futures import ThreadPoolExecutor
VERIF = os.path.dirname(os.path.dirname(os.path.abspath(__file__)))
PY = "/venv/bin/python"


def one(d):
    wt = tempfile.mkdtemp(prefix="rf_"); os.rmdir(wt)
    ev = tempfile.mkdtemp(prefix="rfev_")
    subprocess.check_call(["git", "-C", "/repo", "worktree", "add", "-q", "--detach", wt, "HEAD"])
    viol, closed = [], []
    try:
        if subprocess.call(["git", "-C", wt, "apply", os.path.join(d, "patch.diff")], stderr=subprocess.DEVNULL) != 0 and \
                subprocess.call(["git", "-C", wt, "apply", "--3way", os.path.join(d, "patch.diff")], stderr=subprocess.DEVNULL) != 0:
            return os.path.basename(d), None, None
        env = dict(os.environ, VERIF_REPO=wt, VERIF_EVIDENCE_DIR=ev, VERIF_NO_SELFTEST="1")
        for i in range(1, 21):
            p = "C%02d" % i
            pr = subprocess.run([PY, "-m", "sa.check", p, "--tier", "quick"], cwd=VERIF, env=env, capture_output=True, text=True)
            if pr.returncode == 1:
                viol.append(p)
            elif pr.returncode == 2:
                closed.append(p)
    finally:
        subprocess.call(["git", "-C", "/repo", "worktree", "remove", "--force", wt])
        shutil.rmtree(ev, ignore_errors=True)
    return os.path.basename(d), viol, closed


def main():
    root = os.path.join(VERIF, "seeded", "_refactorings")
    dirs = sorted(os.path.join(root, n) for n in os.listdir(root) if os.path.isdir(os.path.join(root, n)))
    with ThreadPoolExecutor(max_workers=8) as ex:
        res = list(ex.map(one, dirs))
    lines = ["# Behaviour-preserving refactorings", "", "| refactoring | VIOLATION (false alarm) | exit 2 (undecided) |", "|---|---|---|"]
    bad = 0
    for n, v, c in res:
        if v is None:
            lines.append("| %s | patch does not apply to the current tree | |" % n)
            continue
        bad += len(v)
        lines.append("| %s | %s | %s |" % (n, ",".join(v) or "-", ",".join(c) or "-"))
    lines += ["", "%d refactorings, %d false alarms, %d with at least one undecided check" % (
        len(res), bad, sum(1 for _, v, c in res if c))]
    open(os.path.join(root, "SUMMARY.md"), "w").write("\n".join(lines) + "\n")
    print(lines[-1])
    return 1 if bad else 0


if __name__ == "__main__":
    sys.exit(main())
