#!/usr/bin/env python3
"""Robustness: every pair of consecutive statements `self.a = v; self.b = w` whose values are constants, names or empty literals is
rewritten, in memory, to the parallel assignment `self.a, self.b = v, w` across all non-test modules (behaviour identical: a
name or constant is evaluated without effect, and the two targets differ).  All 20 quick checks run on that overlay: exit 1 would
be a false alarm caused by matching the spelling of an assignment (the loader's split pass is what is exercised).  Run with
/venv/bin/python."""
import sys, os, ast, glob
sys.path.insert(0, os.path.dirname(os.path.dirname(os.path.abspath(__file__))))
os.environ["VERIF_EVIDENCE_DIR"] = "/tmp/parallel_ev"
os.environ["VERIF_NO_SELFTEST"] = "1"
from sa.check import run_property
from sa.repo import AnalysisError


class Rewriter(ast.NodeTransformer):
    n = 0

    @staticmethod
    def _simple(st):
        """`self.x = <constant | name | empty literal>` -- merging two of these into one parallel assignment changes nothing"""
        if not (isinstance(st, ast.Assign) and len(st.targets) == 1 and isinstance(st.targets[0], ast.Attribute)
                and isinstance(st.targets[0].value, ast.Name) and st.targets[0].value.id == "self"):
            return False
        v = st.value
        return isinstance(v, (ast.Constant, ast.Name)) or (isinstance(v, ast.List) and not v.elts) or (isinstance(v, ast.Dict) and not v.keys)

    def _merge(self, body):
        out, i = [], 0
        while i < len(body):
            st = body[i]
            if i + 1 < len(body) and self._simple(st) and self._simple(body[i + 1]) and \
                    ast.dump(st.targets[0]) != ast.dump(body[i + 1].targets[0]):
                nx = body[i + 1]
                Rewriter.n += 1
                out.append(ast.copy_location(ast.Assign(
                    targets=[ast.Tuple(elts=[st.targets[0], nx.targets[0]], ctx=ast.Store())],
                    value=ast.Tuple(elts=[st.value, nx.value], ctx=ast.Load()), type_comment=None), st))
                i += 2
                continue
            out.append(st)
            i += 1
        return out

    def generic_visit(self, node):
        super().generic_visit(node)
        for field in ("body", "orelse", "finalbody"):
            b = getattr(node, field, None)
            if isinstance(b, list) and b and isinstance(b[0], ast.stmt):
                setattr(node, field, self._merge(b))
        return node


def overlay():
    ov = {}
    root = os.path.join(os.environ.get("VERIF_REPO", "/repo"), "html5lib")
    for p in glob.glob(root + "/**/*.py", recursive=True):
        rel = os.path.relpath(p, root)
        if rel.startswith("tests"):
            continue
        tree = Rewriter().visit(ast.parse(open(p).read()))
        ast.fix_missing_locations(tree)
        ov[rel] = ast.unparse(tree) + "\n"
    return ov


def main():
    ov = overlay()
    if len(sys.argv) > 2 and sys.argv[1] == "--dump":
        for rel, src in ov.items():
            open(os.path.join(sys.argv[2], "html5lib", rel), "w").write(src)
        print("merged %d pairs of assignments" % Rewriter.n)
        return 0
    print("merged %d pairs of assignments" % Rewriter.n)
    bad = False
    for i in range(1, 21):
        pid = "C%02d" % i
        try:
            rc = run_property(pid, "quick", overlay=ov, quiet=True)
        except AnalysisError as e:
            rc = "2 (%s)" % str(e)[:160]
        except Exception as e:      # noqa: BLE001
            rc = "2 (internal: %r)" % e
        print(pid, rc)
        bad = bad or rc == 1
    return 1 if bad else 0


if __name__ == "__main__":
    sys.exit(main())
