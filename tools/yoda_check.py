#!/usr/bin/env python3
"""Robustness: every `x == c` / `x != c` whose right operand is a constant and whose left operand is not is rewritten, in memory, to
`c == x` / `c != x` across all non-test modules (behaviour identical).  All 20 quick checks run on that overlay: exit 1 would be a
false alarm caused by matching the spelling of a comparison.  Run with /venv/bin/python."""
import sys, os, ast, glob
sys.path.insert(0, os.path.dirname(os.path.dirname(os.path.abspath(__file__))))
os.environ["VERIF_EVIDENCE_DIR"] = "/tmp/yoda_ev"
os.environ["VERIF_NO_SELFTEST"] = "1"
from sa.check import run_property
from sa.repo import AnalysisError


class Rewriter(ast.NodeTransformer):
    n = 0

    def visit_Compare(self, node):
        self.generic_visit(node)
        if len(node.ops) == 1 and isinstance(node.ops[0], (ast.Eq, ast.NotEq)) and isinstance(node.comparators[0], ast.Constant) \
                and not isinstance(node.left, ast.Constant):
            Rewriter.n += 1
            return ast.copy_location(ast.Compare(left=node.comparators[0], ops=node.ops, comparators=[node.left]), node)
        return node


def overlay():
    ov = {}
    root = os.path.join(os.environ.get("VERIF_REPO", "/repo"), "html5lib")
    for p in glob.glob(root + "/**/*.py", recursive=True):
        rel = os.path.relpath(p, root)
        if rel.startswith("tests"):
            continue
        tree = Rewriter().visit(ast.parse(open(p).read()))
        ast.fix_missing_locations(tree)
        ov[rel] = ast.unparse(tree) + "\n"
    return ov


def main():
    ov = overlay()
    if len(sys.argv) > 2 and sys.argv[1] == "--dump":
        for rel, src in ov.items():
            open(os.path.join(sys.argv[2], "html5lib", rel), "w").write(src)
        print("rewrote %d comparisons" % Rewriter.n)
        return 0
    print("rewrote %d comparisons" % Rewriter.n)
    bad = False
    for i in range(1, 21):
        pid = "C%02d" % i
        try:
            rc = run_property(pid, "quick", overlay=ov, quiet=True)
        except AnalysisError as e:
            rc = "2 (%s)" % str(e)[:160]
        except Exception as e:      # noqa: BLE001
            rc = "2 (internal: %r)" % e
        print(pid, rc)
        bad = bad or rc == 1
    return 1 if bad else 0


if __name__ == "__main__":
    sys.exit(main())
