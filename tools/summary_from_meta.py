#!/usr/bin/env python3
"""Rebuild seeded/SUMMARY.md from the meta.json files as they are (no check is re-run; tools/reeval_seeds.py does that, in about
two hours, tools/reeval_fast.py in a few minutes).  `first-run` JSON lines (`<prop> <x> <name>: {...}`), as printed by the keep
scripts of a round, may be given as arguments: they fill `caught_by_at_first_run` / `fail_closed_at_first_run` of changes whose
meta.json does not have them yet."""
import json, os, re, sys
VERIF = os.path.dirname(os.path.dirname(os.path.abspath(__file__)))


def main():
    first = {}
    for p in sys.argv[1:]:
        for line in open(p):
            m = re.match(r"(C\d\d) \S+ (\S+): (\{.*\})", line)
            if m:
                try:
                    first[(m.group(1), m.group(2))] = json.loads(m.group(3))
                except ValueError:
                    pass
    root = os.path.join(VERIF, "seeded")
    metas = []
    for p in sorted(os.listdir(root)):
        if p.startswith("_") or not os.path.isdir(os.path.join(root, p)):
            continue
        for n in sorted(os.listdir(os.path.join(root, p))):
            mp = os.path.join(root, p, n, "meta.json")
            if not os.path.exists(mp):
                continue
            m = json.load(open(mp))
            if "caught_by_at_first_run" not in m:
                fr = first.get((p, n))
                if fr is not None:
                    m["caught_by_at_first_run"] = fr.get("caught_by", [])
                    m["fail_closed_at_first_run"] = fr.get("fail_closed_in", [])
                    json.dump(m, open(mp, "w"), indent=1)
            m.setdefault("caught_by_own_property_check", m["property"] in m.get("caught_by", []))
            metas.append(m)
    lines = ["# Seeded changes", "",
             "Each row: a change produced by an independent sub-agent that was given only the property text and a scratch worktree;",
             "confirmed here (demo passes without / fails with the change; the 972 existing tests still pass with it).", "",
             "| property | change | needs to manifest | reported by (VIOLATION) | fail-closed (exit 2) | at first run |", "|---|---|---|---|---|---|"]
    for m in metas:
        fr = ",".join(m.get("caught_by_at_first_run", [])) or ("exit 2: " + ",".join(m.get("fail_closed_at_first_run", [])) if m.get("fail_closed_at_first_run") else "missed")
        lines.append("| %s | %s | %s | %s | %s | %s |" % (m["property"], m["name"], m.get("needs_to_manifest", "")[:110].replace("|", "/").replace("\n", " "),
                                                       ",".join(m["caught_by"]) or "**none**", ",".join(m["fail_closed_in"]) or "-", fr))
    n = len(metas)
    c = sum(1 for m in metas if m["caught_by"])
    own = sum(1 for m in metas if m["property"] in m["caught_by"])
    lines += ["", "%d changes; %d reported by at least one check (%d by the check of the property they were written against); %d only fail-closed; %d missed."
              % (n, c, own, sum(1 for m in metas if not m["caught_by"] and m["fail_closed_in"]), sum(1 for m in metas if not m["caught_by"] and not m["fail_closed_in"]))]
    open(os.path.join(root, "SUMMARY.md"), "w").write("\n".join(lines) + "\n")
    print(lines[-1])


if __name__ == "__main__":
    main()
