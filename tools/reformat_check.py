#!/usr/bin/env python3
"""Robustness: every non-test module of /repo/html5lib is replaced (in memory) by ast.unparse(ast.parse(source)) -- comments
gone, quotes, parentheses, line breaks and line numbers changed, behaviour identical -- and all 20 quick checks are run on
that overlay.  Any result other than 0 is a dependence on source text rather than on the program.  Run with /venv/bin/python."""
import sys, os, ast, glob
sys.path.insert(0, os.path.dirname(os.path.dirname(os.path.abspath(__file__))))
os.environ["VERIF_EVIDENCE_DIR"]="/tmp/reformat_ev"
os.environ["VERIF_NO_SELFTEST"]="1"
from sa.check import run_property
from sa.repo import AnalysisError
ov={}
root=os.path.join(os.environ.get('VERIF_REPO','/repo'),'html5lib')
for p in glob.glob(root+'/**/*.py', recursive=True):
    rel=os.path.relpath(p, root)
    if rel.startswith('tests'): continue
    src=open(p).read()
    ov[rel]=ast.unparse(ast.parse(src))+"\n"
bad=False
for i in range(1,21):
    pid="C%02d"%i
    try:
        rc=run_property(pid,"quick",overlay=ov,quiet=True)
    except AnalysisError as e:
        rc="AE: %s"%str(e)[:150]
    except Exception as e:
        rc="EXC: %r"%e
    print(pid, rc)
    bad = bad or rc != 0
sys.exit(1 if bad else 0)
