#!/usr/bin/env python3
"""Re-base a kept seeded change whose patch no longer applies (after `fix:` commits in /repo touched the same lines).

usage: tools/rebase_seed.py <seeded/<prop>/<name>> <edits.json>

edits.json: [[file relative to the repo root, old text, new text], ...] -- the same semantic change, expressed against today's
tree.  In a scratch worktree of /repo's HEAD (removed afterwards) the script confirms: the seed's demo passes on the unchanged
tree, fails with the edits, the existing suite still passes with them.  Then the old patch is kept as patch.origN.diff and the
new diff becomes patch.diff.  Nothing is written when the confirmation fails.
"""
import json
import os
import re
import subprocess
import sys
import tempfile

PY = "/venv/bin/python"


def run(cmd, cwd, env=None, timeout=900):
    p = subprocess.run(cmd, cwd=cwd, env=env, capture_output=True, text=True, timeout=timeout)
    return p.returncode, p.stdout + p.stderr


def main():
    seed = os.path.abspath(sys.argv[1])
    edits = json.load(open(sys.argv[2]))
    demo = os.path.join(seed, "demo.py")
    wt = tempfile.mkdtemp(prefix="seedrb_")
    os.rmdir(wt)
    subprocess.check_call(["git", "-C", "/repo", "worktree", "add", "-q", "--detach", wt, "HEAD"])
    try:
        env = dict(os.environ, PYTHONPATH=wt, PYTHONWARNINGS="ignore")
        rc0, out0 = run([PY, demo], wt, env, 180)
        for rel, old, new in edits:
            p = os.path.join(wt, rel)
            s = open(p).read()
            if s.count(old) != 1:
                print("EDIT DOES NOT MATCH (%d occurrences) in %s: %r" % (s.count(old), rel, old[:80]))
                return 1
            open(p, "w").write(s.replace(old, new))
        rc1, out1 = run([PY, demo], wt, env, 180)
        rc2, out2 = run([PY, "-m", "pytest", "-q", "-p", "no:cacheprovider", "-x"], wt, None, 900)
        m = re.search(r"(\d+) passed", out2)
        passed = int(m.group(1)) if m else 0
        ok = rc0 == 0 and rc1 != 0 and rc2 == 0 and passed >= 972
        print(json.dumps({"demo_unchanged": rc0, "demo_changed": rc1, "suite": rc2, "passed": passed, "ok": ok}))
        if not ok:
            print((out0 if rc0 else out1 if rc1 == 0 else out2)[-600:])
            return 1
        _, diff = run(["git", "diff"], wt)
        n = len([f for f in os.listdir(seed) if f.startswith("patch.orig")])
        os.rename(os.path.join(seed, "patch.diff"), os.path.join(seed, "patch.orig%d.diff" % (n + 1)))
        open(os.path.join(seed, "patch.diff"), "w").write(diff)
        return 0
    finally:
        subprocess.call(["git", "-C", "/repo", "worktree", "remove", "--force", wt])


if __name__ == "__main__":
    sys.exit(main())
