#!/usr/bin/env python3
"""Confirm a seeded change and keep it under /verif/seeded/<property>/<name>/.

usage: tools/keep_seed.py <source-dir with patch.diff, demo.py[, notes.md]> <property> <name> ["needs ..."]

Confirms, in a scratch worktree of /repo's HEAD (removed afterwards): demo passes without the change, fails with it, the
existing suite still passes with it; then runs every check against the changed tree and records which ones report it.
"""
import json
import os
import re
import shutil
import subprocess
import sys
import tempfile

VERIF = os.path.dirname(os.path.dirname(os.path.abspath(__file__)))
PY = "/venv/bin/python"


def run(cmd, cwd, env=None, timeout=600):
    try:
        p = subprocess.run(cmd, cwd=cwd, env=env, capture_output=True, text=True, timeout=timeout)
        return p.returncode, (p.stdout + p.stderr)
    except subprocess.TimeoutExpired:
        return 124, "timeout"


def main():
    src, prop, name = os.path.abspath(sys.argv[1]), sys.argv[2], sys.argv[3]
    needs = sys.argv[4] if len(sys.argv) > 4 else ""
    patch, demo = os.path.join(src, "patch.diff"), os.path.join(src, "demo.py")
    wt = tempfile.mkdtemp(prefix="seedkeep_")
    os.rmdir(wt)
    ev = tempfile.mkdtemp(prefix="seedev_")
    subprocess.check_call(["git", "-C", "/repo", "worktree", "add", "-q", "--detach", wt, "HEAD"])
    meta = {"property": prop, "name": name, "needs_to_manifest": needs, "ran": []}
    ok = True
    try:
        env = dict(os.environ, PYTHONPATH=wt, PYTHONWARNINGS="ignore")
        rc, out = run([PY, demo], wt, env, 120)
        meta["ran"].append({"cmd": "demo.py on the unchanged tree", "exit": rc})
        ok = ok and rc == 0
        rc, out = run(["git", "apply", patch], wt)
        if rc != 0:
            print("patch does not apply:", out[:300])
            ok = False
        else:
            rc, out = run([PY, demo], wt, env, 120)
            meta["ran"].append({"cmd": "demo.py with the change", "exit": rc, "tail": out[-300:]})
            ok = ok and rc != 0
            rc, out = run([PY, "-m", "pytest", "-q", "-p", "no:cacheprovider", "-x"], wt, None, 900)
            m = re.search(r"(\d+) passed", out)
            meta["ran"].append({"cmd": "existing test suite with the change", "exit": rc, "passed": int(m.group(1)) if m else None})
            ok = ok and rc == 0 and m and int(m.group(1)) >= 972
            cenv = dict(os.environ, VERIF_REPO=wt, VERIF_EVIDENCE_DIR=ev, VERIF_NO_SELFTEST="1")
            caught, closed, details = [], [], {}
            for i in range(1, 21):
                p = "C%02d" % i
                rc, out = run([PY, "-m", "sa.check", p, "--tier", "quick"], VERIF, cenv, 300)
                lines = out.splitlines()
                if rc == 1:
                    caught.append(p)
                    details[p] = [lines[j + 1].strip()[:300] for j, l in enumerate(lines) if l.startswith("VIOLATION") and j + 1 < len(lines)][:3]
                elif rc == 2:
                    closed.append(p)
                    details[p] = [l[:300] for l in lines if l.startswith("ANALYSIS-ERROR")][:1]
            meta["caught_by"] = caught
            meta["fail_closed_in"] = closed
            meta["reports"] = details
            meta["caught_by_own_property_check"] = prop in caught
    finally:
        subprocess.call(["git", "-C", "/repo", "worktree", "remove", "--force", wt])
        shutil.rmtree(ev, ignore_errors=True)
    meta["confirmed"] = bool(ok)
    print(json.dumps({k: meta[k] for k in ("confirmed", "caught_by", "fail_closed_in") if k in meta}))
    if not ok:
        print("NOT KEPT:", json.dumps(meta["ran"])[:600])
        return 1
    dst = os.path.join(VERIF, "seeded", prop, name)
    os.makedirs(dst, exist_ok=True)
    shutil.copy(patch, os.path.join(dst, "patch.diff"))
    shutil.copy(demo, os.path.join(dst, "demo.py"))
    if os.path.exists(os.path.join(src, "notes.md")):
        shutil.copy(os.path.join(src, "notes.md"), os.path.join(dst, "notes.md"))
    json.dump(meta, open(os.path.join(dst, "meta.json"), "w"), indent=1)
    return 0


if __name__ == "__main__":
    sys.exit(main())
