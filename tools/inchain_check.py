#!/usr/bin/env python3
"""Robustness: every `x in (c1, .., cn)` with 2-3 constant members (x a name / subscript / attribute read, so that evaluating it
several times is harmless) is rewritten, in memory, to `x == c1 or .. or x == cn` (and `not in` to the `and` of `!=`), across all
non-test modules; behaviour is identical.  All 20 quick checks run on that overlay: exit 1 would be a false alarm caused by matching
the spelling of a condition; exit 2 (undecided) is tolerated and listed.  Run with /venv/bin/python."""
import sys, os, ast, glob, copy
sys.path.insert(0, os.path.dirname(os.path.dirname(os.path.abspath(__file__))))
os.environ["VERIF_EVIDENCE_DIR"] = "/tmp/inchain_ev"
os.environ["VERIF_NO_SELFTEST"] = "1"
from sa.check import run_property
from sa.repo import AnalysisError


class Rewriter(ast.NodeTransformer):
    n = 0

    def visit_Compare(self, node):
        self.generic_visit(node)
        if len(node.ops) == 1 and isinstance(node.ops[0], (ast.In, ast.NotIn)) and isinstance(node.comparators[0], (ast.Tuple, ast.List)) \
                and 2 <= len(node.comparators[0].elts) <= 3 and all(isinstance(e, ast.Constant) for e in node.comparators[0].elts) \
                and isinstance(node.left, (ast.Name, ast.Subscript, ast.Attribute)) and \
                not any(isinstance(x, ast.Call) for x in ast.walk(node.left)):
            neg = isinstance(node.ops[0], ast.NotIn)
            parts = [ast.Compare(left=copy.deepcopy(node.left), ops=[ast.NotEq() if neg else ast.Eq()], comparators=[e])
                     for e in node.comparators[0].elts]
            Rewriter.n += 1
            return ast.copy_location(ast.BoolOp(op=ast.And() if neg else ast.Or(), values=parts), node)
        return node


def overlay():
    ov = {}
    root = os.path.join(os.environ.get("VERIF_REPO", "/repo"), "html5lib")
    for p in glob.glob(root + "/**/*.py", recursive=True):
        rel = os.path.relpath(p, root)
        if rel.startswith("tests"):
            continue
        tree = Rewriter().visit(ast.parse(open(p).read()))
        ast.fix_missing_locations(tree)
        ov[rel] = ast.unparse(tree) + "\n"
    return ov


def main():
    ov = overlay()
    if len(sys.argv) > 2 and sys.argv[1] == "--dump":
        for rel, src in ov.items():
            open(os.path.join(sys.argv[2], "html5lib", rel), "w").write(src)
        print("rewrote %d conditions" % Rewriter.n)
        return 0
    print("rewrote %d conditions" % Rewriter.n)
    bad = False
    for i in range(1, 21):
        pid = "C%02d" % i
        try:
            rc = run_property(pid, "quick", overlay=ov, quiet=True)
        except AnalysisError as e:
            rc = "2 (%s)" % str(e)[:160]
        except Exception as e:      # noqa: BLE001
            rc = "2 (internal: %r)" % e
        print(pid, rc)
        bad = bad or rc == 1
    return 1 if bad else 0


if __name__ == "__main__":
    sys.exit(main())
