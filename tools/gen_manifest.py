#!/usr/bin/env python3
"""Regenerate /verif/MANIFEST.json from the rule modules that exist.

Each sa/rules/cNN.py carries CLAIM (what a PASS means) and NOT_DECIDED texts; a
property without a rule module is listed under not_applicable with the reason
given in NOT_APPLICABLE below.
"""
import importlib
import json
import os
import sys

VERIF = os.path.dirname(os.path.dirname(os.path.abspath(__file__)))
sys.path.insert(0, VERIF)

NOT_APPLICABLE = {}

DESIGN_REF = {"C%02d" % i: "DESIGN.md section 4, C%02d" % i for i in range(1, 21)}


def main():
    checks, na = [], []
    for i in range(1, 21):
        pid = "C%02d" % i
        path = os.path.join(VERIF, "sa", "rules", pid.lower() + ".py")
        if not os.path.exists(path):
            na.append({"property_id": pid, "reason": NOT_APPLICABLE.get(
                pid, "no static rule is armed for this property yet; nothing is claimed")})
            continue
        mod = importlib.import_module("sa.rules." + pid.lower())
        level = getattr(mod, "LEVEL", "other")
        checks.append({
            "property_id": pid,
            "quick_cmd": "/venv/bin/python -m sa.check %s --tier quick" % pid,
            "thorough_cmd": "/venv/bin/python -m sa.check %s --tier thorough" % pid,
            "evidence_file": "evidence/%s.json" % pid,
            "replay_cmd_template": "/venv/bin/python -m sa.check %s --tier quick --replay {path}" % pid,
            "engine": "sa",
            "level_claimed": {
                "category": level,
                "text": mod.CLAIM,
                "design_ref": DESIGN_REF[pid],
            },
            "level_note": "Decides structural clauses only (necessary conditions). NOT decided: " + mod.NOT_DECIDED +
                          " Trusted base: CPython ast/re._parser, the constant evaluator's whitelist, the idiom "
                          "recognisers (fail closed: exit 2), transcribed standard tables under sa/data.",
            "technique": mod.TECHNIQUE,
        })
    manifest = {
        "version": 1,
        "setup_cmd": "/venv/bin/python -m sa.setup",
        "hooks": {
            "guard": "HTML5LIB_VERIF",
            "enable": "no hook or instrumentation is used: the checks read /repo's source files only",
            "baseline_off_cmd": "cd /repo && /venv/bin/python -m pytest -ra -q -p no:cacheprovider --timeout=900 "
                                "--continue-on-collection-errors",
            "source_commits": [],
            "add_only": True,
        },
        "engines": [{
            "name": "sa",
            "path": "sa/",
            "serves_properties": [c["property_id"] for c in checks],
            "kind_free_text": "repository-specific static analysis over Python ast: constant evaluation of tables, "
                              "branch partition over finite abstract domains, per-function path/effect walks, "
                              "resolved dispatcher call graph, tokenizer transition-model extraction, "
                              "reader/writer table agreement; in-memory mutation self-test",
        }],
        "checks": checks,
        "not_applicable": na,
        "notes": "Static analysis only: no check imports or executes html5lib. exit 0 pass / 1 VIOLATION / "
                 "2 ANALYSIS-ERROR (fail closed). Known findings: known_findings.json. Genuine defects repaired "
                 "in /repo by 'fix:' commits are listed there as 'fixed: <commit>'.",
    }
    with open(os.path.join(VERIF, "MANIFEST.json"), "w") as f:
        json.dump(manifest, f, indent=1)
    print("MANIFEST.json: %d checks, %d not_applicable" % (len(checks), len(na)))


if __name__ == "__main__":
    main()
